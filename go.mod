module verif

go 1.20
