package gfd

// C20 (part 3) — packing a descriptor, loop index, row and column into a connection identifier
// and unpacking it returns the same four values (all values within the field widths).

import (
	"fmt"
	"testing"

	"github.com/panjf2000/gnet/v2/internal/verifmc/seqmc"
)

func checkGFD(fd, el, row, col int) string {
	g := NewGFD(fd, el, row, col)
	if g.Fd() != fd || g.EventLoopIndex() != el || g.ConnMatrixRow() != row || g.ConnMatrixColumn() != col {
		return fmt.Sprintf("NewGFD(fd=%d, loop=%d, row=%d, col=%d) unpacks to fd=%d loop=%d row=%d col=%d", fd, el, row, col, g.Fd(), g.EventLoopIndex(), g.ConnMatrixRow(), g.ConnMatrixColumn())
	}
	if fd > 2 && !g.Validate() {
		return fmt.Sprintf("NewGFD(fd=%d, loop=%d, row=%d, col=%d) does not validate", fd, el, row, col)
	}
	return ""
}

func checkUpdate(fd, el, row, col, row2, col2 int) string {
	g := NewGFD(fd, el, row, col)
	seq := g.Sequence()
	g.UpdateIndexes(row2, col2)
	if g.Fd() != fd || g.EventLoopIndex() != el || g.ConnMatrixRow() != row2 || g.ConnMatrixColumn() != col2 || g.Sequence() != seq {
		return fmt.Sprintf("UpdateIndexes(%d,%d) on (fd=%d, loop=%d, row=%d, col=%d) gives fd=%d loop=%d row=%d col=%d", row2, col2, fd, el, row, col, g.Fd(), g.EventLoopIndex(), g.ConnMatrixRow(), g.ConnMatrixColumn())
	}
	return ""
}

func TestMC_C20gfd(t *testing.T) {
	var res seqmc.Result
	res.Property = "C20"
	if rp := seqmc.ReplayFile(); rp != "" {
		v, err := seqmc.LoadViolation(rp)
		if err != nil {
			t.Fatal(err)
		}
		a := v.History[0].A
		msg := checkGFD(a[0], a[1], a[2], a[3])
		if msg == "" && len(a) == 6 {
			msg = checkUpdate(a[0], a[1], a[2], a[3], a[4], a[5])
		}
		if msg != "" {
			fmt.Printf("REPLAY-VIOLATION property=C20 sig=%s %s\n", v.Sig, msg)
			t.Fail()
			return
		}
		fmt.Println("REPLAY-OK property=C20")
		return
	}
	var total int64
	var first string
	var firstA []int
	maxInt := int(^uint(0) >> 1)
	fds := []int{0, 3, 1<<31 - 1, 1 << 31, 1 << 62, maxInt}
	cols := []int{0, 1, 255, 256, 65535}
	for el := 0; el < EventLoopIndexMax; el++ {
		for row := 0; row < ConnMatrixRowMax; row++ {
			for _, col := range cols {
				for _, fd := range fds {
					total++
					if msg := checkGFD(fd, el, row, col); msg != "" && first == "" {
						first, firstA = msg, []int{fd, el, row, col}
					}
				}
			}
		}
	}
	for col := 0; col < ConnMatrixColumnMax; col++ {
		for _, lr := range [][2]int{{0, 0}, {255, 255}, {0, 255}, {255, 0}, {1, 128}} {
			total++
			if msg := checkGFD(7, lr[0], lr[1], col); msg != "" && first == "" {
				first, firstA = msg, []int{7, lr[0], lr[1], col}
			}
			total++
			if msg := checkUpdate(9, lr[0], lr[1], col, 255-lr[1], 65535-col); msg != "" && first == "" {
				first, firstA = msg, []int{9, lr[0], lr[1], col, 255 - lr[1], 65535 - col}
			}
		}
	}
	res.Evaluations = total
	res.Distinct = total
	res.Exhaustive = true
	res.Bounds = []string{"gfd: all 65536 (loop,row) pairs x columns {0,1,255,256,65535} x fds {0,3,2^31-1,2^31,2^62,MaxInt}; all 65536 columns x 5 (loop,row) pairs incl. UpdateIndexes"}
	res.Samples = []string{"NewGFD(fd=3, loop=255, row=255, col=65535)", "UpdateIndexes(0,65535) on (9,1,128,0)"}
	if first != "" {
		res.Violations = append(res.Violations, seqmc.Violation{Property: "C20", Scenario: "gfd", Sig: "gfd:roundtrip", Msg: first, History: []seqmc.Op{{N: "gfd", A: firstA}}, Replays: 5})
	}
	if err := res.Write(); err != nil {
		t.Fatal(err)
	}
}
