package ringbuffer

// C12 (ring-buffer pool) — a ring buffer obtained from the pool is empty and not shared with
// any other holder. Explicit-state search over Get/Write/Put/GC on a fresh Pool, plus one
// scripted run that crosses the calibration threshold.

import (
	"fmt"
	"runtime"
	"strings"
	"testing"

	"github.com/panjf2000/gnet/v2/internal/verifmc/seqmc"
)

type rbh struct {
	rb      *RingBuffer
	written []byte
}

type c12r struct {
	p    *Pool
	out  []*rbh
	seq  int
	salt uint64
	gcs  int
}

func (m *c12r) Key() string {
	var o []string
	for _, h := range m.out {
		o = append(o, fmt.Sprintf("%d/%d", h.rb.Cap(), len(h.written)))
	}
	return strings.Join(o, ",") + fmt.Sprintf("|gc%d|d%d|m%d", m.gcs, m.p.defaultSize, m.p.maxSize)
}
func (m *c12r) Expand() bool { return true }
func (m *c12r) Ops() []seqmc.Op {
	var ops []seqmc.Op
	if len(m.out) < 3 {
		ops = append(ops, seqmc.Op{N: "Get"})
	}
	for i := range m.out {
		for _, k := range []int{1, 100, 2000} {
			ops = append(ops, seqmc.Op{N: "Write", A: []int{i, k}})
		}
		ops = append(ops, seqmc.Op{N: "Put", A: []int{i}})
	}
	if m.gcs < 2 {
		ops = append(ops, seqmc.Op{N: "GC"})
	}
	return ops
}

func (m *c12r) check(op string) (string, string) {
	for i, h := range m.out {
		got := h.rb.Bytes()
		if string(got) != string(h.written) {
			return fmt.Sprintf("after %s: ring buffer #%d held by the harness changed content (%d bytes, wrote %d)", op, i, len(got), len(h.written)), "rb:corrupt"
		}
	}
	return "", ""
}

func (m *c12r) Apply(op seqmc.Op) (string, string) {
	switch op.N {
	case "Get":
		rb := m.p.Get()
		if rb == nil {
			return "Get returned nil", "rb:nil"
		}
		if !rb.IsEmpty() || rb.Buffered() != 0 {
			return fmt.Sprintf("Get returned a ring buffer holding %d bytes", rb.Buffered()), "rb:notempty"
		}
		for i, h := range m.out {
			if h.rb == rb {
				return fmt.Sprintf("Get returned the ring buffer that holder #%d still owns", i), "rb:shared"
			}
		}
		m.out = append(m.out, &rbh{rb: rb})
	case "Write":
		h := m.out[op.A[0]]
		p := make([]byte, op.A[1])
		for i := range p {
			p[i] = seqmc.ByteAt(m.salt, m.seq)
			m.seq++
		}
		_, _ = h.rb.Write(p)
		h.written = append(h.written, p...)
	case "Put":
		i := op.A[0]
		h := m.out[i]
		m.out = append(m.out[:i:i], m.out[i+1:]...)
		m.p.Put(h.rb)
	case "GC":
		runtime.GC()
		m.gcs++
	}
	return m.check(op.String())
}

func newC12r() seqmc.Instance { return &c12r{p: &Pool{}, salt: seqmc.Salt()} }

func TestMC_C12rb(t *testing.T) {
	thorough := seqmc.Tier() == "thorough"
	if rp := seqmc.ReplayFile(); rp != "" {
		v, err := seqmc.LoadViolation(rp)
		if err != nil {
			t.Fatal(err)
		}
		if v.Scenario == "calibration" {
			if msg := calibrationRun(); msg != "" {
				fmt.Printf("REPLAY-VIOLATION property=C12 sig=%s %s\n", v.Sig, msg)
				t.Fail()
				return
			}
			fmt.Println("REPLAY-OK property=C12")
			return
		}
		_, msg, sig, at := seqmc.Replay(newC12r, v.History)
		if msg != "" {
			fmt.Printf("REPLAY-VIOLATION property=C12 sig=%s step=%d %s\n", sig, at, msg)
			t.Fail()
			return
		}
		fmt.Println("REPLAY-OK property=C12")
		return
	}
	depth := 6
	if thorough {
		depth = 8
	}
	var res seqmc.Result
	res.Property = "C12"
	st, vs := seqmc.Run(seqmc.Config{Property: "C12", Scenario: "ringbuffer-pool", New: newC12r, Depth: depth, Deadline: seqmc.Deadline()})
	res.Add(st, vs)
	if msg := calibrationRun(); msg != "" {
		res.Violations = append(res.Violations, seqmc.Violation{Property: "C12", Scenario: "calibration", Sig: "rb:calibration", Msg: msg, History: []seqmc.Op{{N: "calibration"}}, Replays: 5})
	}
	res.Transitions += 3 * (calibrateCallsThreshold + 10)
	res.Evaluations += 3 * (calibrateCallsThreshold + 10)
	res.Exhaustive = len(res.Caps) == 0
	res.Bounds = []string{fmt.Sprintf("all Get/Write/Put/GC sequences of length <= %d on a fresh ring-buffer Pool (<= 3 holders, writes of 1/100/2000 bytes, <= 2 GCs); one scripted run of %d Put calls crossing the calibration threshold with three holders", depth, calibrateCallsThreshold+10)}
	res.Samples = []string{"Get; Write(#0,2000); Put(#0); Get; Get; Write(#1,1)", "calibration: 42010 x (Get; Write; Put) with two other holders outstanding"}
	if err := res.Write(); err != nil {
		t.Fatal(err)
	}
}

// calibrationRun crosses the calibration threshold while two rings stay outstanding.
func calibrationRun() string {
	m := newC12r().(*c12r)
	for _, op := range []seqmc.Op{{N: "Get"}, {N: "Write", A: []int{0, 100}}, {N: "Get"}, {N: "Write", A: []int{1, 5000}}} {
		if msg, _ := m.Apply(op); msg != "" {
			return msg
		}
	}
	for i := 0; i < calibrateCallsThreshold+10; i++ {
		k := 1
		if i%7 == 0 {
			k = 2000
		}
		for _, op := range []seqmc.Op{{N: "Get"}, {N: "Write", A: []int{2, k}}, {N: "Put", A: []int{2}}} {
			if msg, _ := m.Apply(op); msg != "" {
				return fmt.Sprintf("round %d: %s", i, msg)
			}
		}
	}
	if m.p.defaultSize == 0 {
		return "calibration did not run (scripted run is vacuous)"
	}
	return ""
}
