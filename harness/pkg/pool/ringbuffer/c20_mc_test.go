package ringbuffer

// C20 (extra, beyond the letter of the statement) — the ring-buffer pool's size-class function,
// the input of its calibration: smallest class (capacity 64<<idx) that holds the size, class 0
// for everything up to 64 bytes (a drained ring reports length 0), the last class for everything
// larger. Every size -4..2^26 and windows around every power of two up to 2^40.

import (
	"fmt"
	"testing"

	"github.com/panjf2000/gnet/v2/internal/verifmc/seqmc"
)

func rbRefIndex(n int64) int {
	for idx := 0; idx < steps; idx++ {
		if int64(minSize)<<uint(idx) >= n {
			return idx
		}
	}
	return steps - 1
}

func rbCheckIndex(n int64) string {
	got := index(int(n))
	if want := rbRefIndex(n); got != want {
		return fmt.Sprintf("ring-buffer pool: index(%d) = %d, the smallest class holding it is %d (capacity %d)", n, got, want, int64(minSize)<<uint(want))
	}
	return ""
}

func TestMC_C20rbidx(t *testing.T) {
	var res seqmc.Result
	res.Property = "C20"
	if rp := seqmc.ReplayFile(); rp != "" {
		v, err := seqmc.LoadViolation(rp)
		if err != nil {
			t.Fatal(err)
		}
		if msg := rbCheckIndex(int64(v.History[0].A[0])); msg != "" {
			fmt.Printf("REPLAY-VIOLATION property=C20 sig=%s %s\n", v.Sig, msg)
			t.Fail()
			return
		}
		fmt.Println("REPLAY-OK property=C20")
		return
	}
	var total int64
	first := ""
	var firstN int64
	try := func(n int64) {
		total++
		if msg := rbCheckIndex(n); msg != "" && first == "" {
			first, firstN = msg, n
		}
	}
	for n := int64(-4); n <= 1<<26; n++ {
		try(n)
	}
	for k := uint(27); k <= 40; k++ {
		for d := int64(-2); d <= 2; d++ {
			try(int64(1)<<k + d)
		}
	}
	if first != "" {
		res.Violations = append(res.Violations, seqmc.Violation{Property: "C20", Scenario: "rbindex", Sig: "rbindex:class", Msg: first, History: []seqmc.Op{{N: "index", A: []int{int(firstN)}}}, Replays: 5})
	}
	res.Evaluations = total
	res.Distinct = total
	res.Exhaustive = true
	res.Bounds = []string{"ring-buffer pool size-class function: every size -4..2^26 and windows of +-2 around every power of two up to 2^40"}
	if err := res.Write(); err != nil {
		t.Fatal(err)
	}
}
