package byteslice

// C20 (part 2) — the byte-slice pool's size-class function: smallest class whose capacity is
// at least the size, for every size 1..MaxInt32 (thorough) / 1..2^24 + all class boundaries (quick).

import (
	"fmt"
	"math"
	"runtime"
	"sync"
	"sync/atomic"
	"testing"

	"github.com/panjf2000/gnet/v2/internal/verifmc/seqmc"
)

func checkIndex(n uint32) string {
	idx := index(n)
	if idx > 31 {
		return fmt.Sprintf("index(%d) = %d: no such class", n, idx)
	}
	if uint64(1)<<idx < uint64(n) {
		return fmt.Sprintf("index(%d) = %d: class capacity %d is smaller than the size", n, idx, uint64(1)<<idx)
	}
	if idx > 0 && uint64(1)<<(idx-1) >= uint64(n) {
		return fmt.Sprintf("index(%d) = %d: class %d (capacity %d) already fits", n, idx, idx-1, uint64(1)<<(idx-1))
	}
	return ""
}

func TestMC_C20idx(t *testing.T) {
	thorough := seqmc.Tier() == "thorough"
	var res seqmc.Result
	res.Property = "C20"
	if rp := seqmc.ReplayFile(); rp != "" {
		v, err := seqmc.LoadViolation(rp)
		if err != nil {
			t.Fatal(err)
		}
		if msg := checkIndex(uint32(v.History[0].A[0])); msg != "" {
			fmt.Printf("REPLAY-VIOLATION property=C20 sig=%s %s\n", v.Sig, msg)
			t.Fail()
			return
		}
		fmt.Println("REPLAY-OK property=C20")
		return
	}
	var mu sync.Mutex
	var first string
	var firstN uint32
	report := func(n uint32, msg string) {
		mu.Lock()
		if first == "" || n < firstN {
			first, firstN = msg, n
		}
		mu.Unlock()
	}
	var total int64
	for k := 0; k <= 31; k++ {
		for d := -2; d <= 2; d++ {
			n := int64(1)<<uint(k) + int64(d)
			if n >= 1 && n <= math.MaxInt32 {
				if msg := checkIndex(uint32(n)); msg != "" {
					report(uint32(n), msg)
				}
				total++
			}
		}
	}
	hi := int64(1) << 24
	if thorough {
		hi = math.MaxInt32
	}
	workers := runtime.GOMAXPROCS(0)
	chunk := int64(1) << 22
	var next int64 = 1
	var wg sync.WaitGroup
	for w := 0; w < workers; w++ {
		wg.Add(1)
		go func() {
			defer wg.Done()
			for {
				lo := atomic.AddInt64(&next, chunk) - chunk
				if lo > hi {
					return
				}
				e := lo + chunk - 1
				if e > hi {
					e = hi
				}
				for n := lo; n <= e; n++ {
					idx := index(uint32(n))
					if idx > 31 || uint64(1)<<idx < uint64(n) || (idx > 0 && uint64(1)<<(idx-1) >= uint64(n)) {
						report(uint32(n), checkIndex(uint32(n)))
					}
				}
				atomic.AddInt64(&total, e-lo+1)
			}
		}()
	}
	wg.Wait()
	res.Evaluations = total
	res.Distinct = total
	res.Exhaustive = true
	res.Bounds = []string{fmt.Sprintf("byteslice.index: every size in [1, %d] plus 2^k-2..2^k+2 for k<=31", hi)}
	res.Samples = []string{"index(1)=0", "index(1025)=11", "index(2147483647)=31"}
	if first != "" {
		res.Violations = append(res.Violations, seqmc.Violation{Property: "C20", Scenario: "byteslice.index", Sig: "index:class", Msg: first, History: []seqmc.Op{{N: "n", A: []int{int(firstN)}}}, Replays: 5})
	}
	if err := res.Write(); err != nil {
		t.Fatal(err)
	}
}
