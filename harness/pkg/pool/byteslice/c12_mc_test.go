package byteslice

// C12 (byte-slice pool) — pooled memory is exclusively owned: no aliasing, no out-of-bounds.
// Explicit-state search (engine E2) over Get/Put/GC sequences on a fresh Pool with an address
// ledger: every array ever seen is kept alive by the harness, so addresses identify memory.

import (
	"fmt"
	"runtime"
	"sort"
	"strings"
	"testing"
	"unsafe"

	"github.com/panjf2000/gnet/v2/internal/verifmc/seqmc"
)

type region struct {
	ptr  uintptr
	cap  int
	age  int
	keep []byte
}

type handle struct {
	buf    []byte
	canary byte
}

type c12 struct {
	p      *Pool
	out    []*handle // outstanding, in Get order
	pooled []*region // regions given to the pool and not handed out again, in Put order
	keep   [][]byte  // every backing array ever seen (keeps addresses unique)
	canary byte
	maxOut int
	gcs    int
	maxGC  int
	sizes  []int
}

func addr(b []byte) uintptr { return uintptr(unsafe.Pointer(unsafe.SliceData(b))) }

func (m *c12) Key() string {
	var o, q []string
	for _, h := range m.out {
		o = append(o, fmt.Sprintf("%d/%d", len(h.buf), cap(h.buf)))
	}
	for _, r := range m.pooled {
		q = append(q, fmt.Sprintf("%d@%d", r.cap, r.age))
	}
	return strings.Join(o, ",") + "|" + strings.Join(q, ",") + fmt.Sprintf("|gc%d", m.gcs)
}
func (m *c12) Expand() bool { return true }

var c12Shapes = []string{"whole", "[1:]", "[:1]", "[:0]", "[1:2:3]"}

func (m *c12) Ops() []seqmc.Op {
	var ops []seqmc.Op
	if len(m.out) < m.maxOut {
		for _, s := range m.sizes {
			ops = append(ops, seqmc.Op{N: "Get", A: []int{s}})
		}
	}
	for i := range m.out {
		for sh := range c12Shapes {
			ops = append(ops, seqmc.Op{N: "Put", A: []int{i, sh}})
		}
	}
	for _, c := range []int{1, 3, 4, 5, 7} {
		ops = append(ops, seqmc.Op{N: "PutForeign", A: []int{c, c}}, seqmc.Op{N: "PutForeign", A: []int{1, c}})
	}
	if m.gcs < m.maxGC {
		ops = append(ops, seqmc.Op{N: "GC"})
	}
	return ops
}

func overlap(a uintptr, an int, b uintptr, bn int) bool {
	return an > 0 && bn > 0 && a < b+uintptr(bn) && b < a+uintptr(an)
}

func (m *c12) put(b []byte) {
	if cap(b) > 0 {
		m.pooled = append(m.pooled, &region{ptr: addr(b), cap: cap(b), keep: b})
	}
	m.p.Put(b)
}

func (m *c12) checkCanaries(op string) (string, string) {
	for i, h := range m.out {
		for j, x := range h.buf {
			if x != h.canary {
				return fmt.Sprintf("after %s: outstanding slice #%d (len %d) was overwritten at offset %d", op, i, len(h.buf), j), "bs:canary"
			}
		}
	}
	return "", ""
}

func (m *c12) Apply(op seqmc.Op) (string, string) {
	switch op.N {
	case "Get":
		s := op.A[0]
		b := m.p.Get(s)
		if len(b) != s && !(s <= 0 && b == nil) {
			return fmt.Sprintf("Get(%d) returned a slice of length %d", s, len(b)), "bs:len"
		}
		if cap(b) < s {
			return fmt.Sprintf("Get(%d) returned capacity %d", s, cap(b)), "bs:cap"
		}
		if s <= 0 {
			break
		}
		// touch the whole capacity: must be addressable memory owned by nobody else
		full := b[:cap(b)]
		a := addr(b)
		for i, h := range m.out {
			if overlap(a, cap(b), addr(h.buf), cap(h.buf)) {
				return fmt.Sprintf("Get(%d) returned memory [%#x,+%d) overlapping outstanding slice #%d [%#x,+%d)", s, a, cap(b), i, addr(h.buf), cap(h.buf)), "bs:alias"
			}
		}
		recycled := false
		for i, r := range m.pooled {
			if overlap(a, cap(b), r.ptr, r.cap) {
				if a < r.ptr || a+uintptr(cap(b)) > r.ptr+uintptr(r.cap) {
					return fmt.Sprintf("Get(%d) returned [%#x,+%d), which reaches beyond the returned slice [%#x,+%d) it was recycled from", s, a, cap(b), r.ptr, r.cap), "bs:beyond"
				}
				m.pooled = append(m.pooled[:i:i], m.pooled[i+1:]...)
				recycled = true
				break
			}
		}
		if !recycled {
			for _, k := range m.keep {
				if overlap(a, cap(b), addr(k), cap(k)) && !(a >= addr(k) && a+uintptr(cap(b)) <= addr(k)+uintptr(cap(k))) {
					return fmt.Sprintf("Get(%d) returned memory straddling an array it does not own", s), "bs:straddle"
				}
			}
		}
		m.keep = append(m.keep, full)
		m.canary++
		for i := range full {
			full[i] = m.canary
		}
		m.out = append(m.out, &handle{buf: b, canary: m.canary})
	case "Put":
		i, sh := op.A[0], op.A[1]
		h := m.out[i]
		m.out = append(m.out[:i:i], m.out[i+1:]...)
		b := h.buf
		switch c12Shapes[sh] {
		case "[1:]":
			if len(b) >= 1 {
				b = b[1:]
			}
		case "[:1]":
			if len(b) >= 1 {
				b = b[:1]
			}
		case "[:0]":
			b = b[:0]
		case "[1:2:3]":
			if cap(b) >= 3 {
				b = b[1:2:3]
			}
		}
		m.put(b)
	case "PutForeign":
		b := make([]byte, op.A[0], op.A[1])
		m.keep = append(m.keep, b[:cap(b)])
		m.put(b)
	case "GC":
		runtime.GC()
		m.gcs++
		var kept []*region
		for _, r := range m.pooled {
			r.age++
			if r.age < 2 {
				kept = append(kept, r)
			}
		}
		m.pooled = kept
	}
	return m.checkCanaries(op.String())
}

func newC12(sizes []int, maxOut, maxGC int) func() seqmc.Instance {
	return func() seqmc.Instance {
		return &c12{p: &Pool{}, sizes: sizes, maxOut: maxOut, maxGC: maxGC}
	}
}

func TestMC_C12(t *testing.T) {
	thorough := seqmc.Tier() == "thorough"
	sizes := []int{0, 1, 2, 3, 4, 5, 8, 9, 1024, 1025, 65536, 65537}
	depth, maxOut := 4, 3
	if thorough {
		depth, maxOut = 5, 3
	}
	if rp := seqmc.ReplayFile(); rp != "" {
		v, err := seqmc.LoadViolation(rp)
		if err != nil {
			t.Fatal(err)
		}
		_, msg, sig, at := seqmc.Replay(newC12(sizes, 10, 10), v.History)
		if msg != "" {
			fmt.Printf("REPLAY-VIOLATION property=C12 sig=%s step=%d %s\n", sig, at, msg)
			t.Fail()
			return
		}
		fmt.Println("REPLAY-OK property=C12")
		return
	}
	// shard by the first operation (each process is single-threaded: sync.Pool is per-P)
	si, sn := seqmc.Shard()
	root := newC12(sizes, maxOut, 2)()
	first := root.Ops()
	var res seqmc.Result
	res.Property = "C12"
	for i, op := range first {
		if i%sn != si {
			continue
		}
		op := op
		st, vs := seqmc.Run(seqmc.Config{Property: "C12", Scenario: "byteslice/" + op.String(), Depth: depth - 1, Deadline: seqmc.Deadline(),
			New: func() seqmc.Instance {
				m := newC12(sizes, maxOut, 2)()
				if msg, _ := m.Apply(op); msg != "" {
					return &failed{msg: msg, op: op}
				}
				return m
			}})
		for k := range vs {
			vs[k].History = append([]seqmc.Op{op}, vs[k].History...)
		}
		res.Add(st, vs)
	}
	sort.Slice(res.Scenarios, func(a, b int) bool { return res.Scenarios[a].Scenario < res.Scenarios[b].Scenario })
	res.Exhaustive = len(res.Caps) == 0
	res.Bounds = []string{fmt.Sprintf("all Get/Put/PutForeign/GC sequences of length <= %d on a fresh Pool: sizes %v, <= %d outstanding slices, Put shapes %v, foreign capacities {1,3,4,5,7}, <= 2 garbage collections", depth, sizes, maxOut, c12Shapes)}
	res.Samples = []string{"Get(5); Put(#0,[1:]); Get(4); Get(3)", "PutForeign(len 1,cap 7); Get(5); Get(4); GC", "Get(1025); Put(#0,[1:2:3]); Get(2); Get(3)"}
	if err := res.Write(); err != nil {
		t.Fatal(err)
	}
}

// failed is an instance whose seed operation already violated the property.
type failed struct {
	msg string
	op  seqmc.Op
}

func (f *failed) Ops() []seqmc.Op                 { return []seqmc.Op{{N: "noop"}} }
func (f *failed) Apply(seqmc.Op) (string, string) { return f.msg, "bs:seed" }
func (f *failed) Key() string                     { return "failed" }
func (f *failed) Expand() bool                    { return false }
