package math

// C20 (part 1) — power-of-two arithmetic, bounded-exhaustive enumeration (engine E3).
// Expected values come from interval enumeration: for every k the reference knows that all n in
// (2^(k-1), 2^k] have ceil 2^k and all n in [2^k, 2^(k+1)) have floor 2^k.

import (
	"fmt"
	"runtime"
	"sync"
	"sync/atomic"
	"testing"

	"github.com/panjf2000/gnet/v2/internal/verifmc/seqmc"
)

type bad struct {
	sig, msg string
	n        int
}

func callNoPanic(f func(int) int, n int) (v int, panicked bool) {
	defer func() {
		if recover() != nil {
			panicked = true
		}
	}()
	return f(n), false
}

// refCeil: smallest power of two >= max(n,2); ok=false when it does not fit an int.
func refCeil(n int) (int, bool) {
	if n <= 2 {
		return 2, true
	}
	p := 1
	for p < n {
		if p >= 1<<62 { // next doubling would overflow
			return 0, false
		}
		p <<= 1
	}
	return p, true
}

func refFloor(n int) int {
	if n <= 2 {
		return n
	}
	p := 1
	for p <= n/2 {
		p <<= 1
	}
	return p
}

func checkOne(n int, report func(bad)) {
	// CeilToPowerOfTwo
	want, ok := refCeil(n)
	got, pan := callNoPanic(CeilToPowerOfTwo, n)
	switch {
	case ok && pan:
		report(bad{"Ceil:panic", fmt.Sprintf("CeilToPowerOfTwo(%d) panicked, want %d", n, want), n})
	case ok && got != want:
		report(bad{"Ceil:value", fmt.Sprintf("CeilToPowerOfTwo(%d) = %d, want %d", n, got, want), n})
	case !ok && !pan:
		report(bad{"Ceil:nopanic", fmt.Sprintf("CeilToPowerOfTwo(%d) = %d, but no power of two >= n fits an int", n, got), n})
	}
	// FloorToPowerOfTwo
	if g, p := callNoPanic(FloorToPowerOfTwo, n); p || g != refFloor(n) {
		report(bad{"Floor:value", fmt.Sprintf("FloorToPowerOfTwo(%d) = %d (panic=%v), want %d", n, g, p, refFloor(n)), n})
	}
	// IsPowerOfTwo
	isP := n > 0 && refFloor(n) == n && n != 0
	if n == 1 {
		isP = true
	}
	if n == 2 {
		isP = true
	}
	if IsPowerOfTwo(n) != isP {
		report(bad{"IsPow:value", fmt.Sprintf("IsPowerOfTwo(%d) = %v", n, IsPowerOfTwo(n)), n})
	}
	// ClosestPowerOfTwo for n >= 1 (where both neighbours exist)
	if n >= 1 && ok {
		lo, hi := refFloor(n), want
		if n == 1 {
			lo, hi = 1, 1
		}
		if n == 2 {
			lo, hi = 2, 2
		}
		exp := hi
		if n-lo < hi-n {
			exp = lo
		}
		if g, p := callNoPanic(ClosestPowerOfTwo, n); p || g != exp {
			report(bad{"Closest:value", fmt.Sprintf("ClosestPowerOfTwo(%d) = %d (panic=%v), want %d", n, g, p, exp), n})
		}
	}
}

// sweep checks [lo,hi] with interval-derived expectations (fast path for the int32 sweep).
func sweep(lo, hi int64, report func(bad)) (count int64, nontrivial int64) {
	n := lo
	for n <= hi {
		if n <= 4 {
			checkOne(int(n), report)
			count++
			n++
			continue
		}
		// n in (2^(k-1), 2^k]: find the interval end
		f := int64(refFloor(int(n)))
		c := f
		if f != n {
			c = f << 1
		}
		// run to the end of this floor-interval [f, 2f) or the sweep
		end := f<<1 - 1
		if end > hi {
			end = hi
		}
		for m := n; m <= end; m++ {
			mi := int(m)
			wc := int(c)
			if m > f {
				wc = int(f << 1)
			} else {
				wc = int(f)
			}
			if g := CeilToPowerOfTwo(mi); g != wc {
				report(bad{"Ceil:value", fmt.Sprintf("CeilToPowerOfTwo(%d) = %d, want %d", mi, g, wc), mi})
			}
			if g := FloorToPowerOfTwo(mi); g != int(f) {
				report(bad{"Floor:value", fmt.Sprintf("FloorToPowerOfTwo(%d) = %d, want %d", mi, g, f), mi})
			}
			if IsPowerOfTwo(mi) != (m == f) {
				report(bad{"IsPow:value", fmt.Sprintf("IsPowerOfTwo(%d) = %v", mi, IsPowerOfTwo(mi)), mi})
			}
			exp := wc
			if mi-int(f) < wc-mi {
				exp = int(f)
			}
			if g := ClosestPowerOfTwo(mi); g != exp {
				report(bad{"Closest:value", fmt.Sprintf("ClosestPowerOfTwo(%d) = %d, want %d", mi, g, exp), mi})
			}
		}
		count += end - n + 1
		nontrivial += end - n + 1
		n = end + 1
	}
	return
}

func TestMC_C20(t *testing.T) {
	thorough := seqmc.Tier() == "thorough"
	var mu sync.Mutex
	viol := map[string]bad{}
	report := func(b bad) {
		mu.Lock()
		if old, ok := viol[b.sig]; !ok || absInt(b.n) < absInt(old.n) {
			viol[b.sig] = b
		}
		mu.Unlock()
	}
	if rp := seqmc.ReplayFile(); rp != "" {
		v, err := seqmc.LoadViolation(rp)
		if err != nil {
			t.Fatal(err)
		}
		checkOne(v.History[0].A[0], report)
		if len(viol) > 0 {
			for _, b := range viol {
				fmt.Printf("REPLAY-VIOLATION property=C20 sig=%s %s\n", b.sig, b.msg)
			}
			t.Fail()
			return
		}
		fmt.Println("REPLAY-OK property=C20")
		return
	}
	var total, nontriv int64
	// (1) neighbourhoods of every power of two up to 2^62, MinInt/MaxInt, small values (generic path)
	var pts []int
	for k := 0; k <= 62; k++ {
		for d := -3; d <= 3; d++ {
			pts = append(pts, (1<<uint(k))+d, -(1<<uint(k))+d)
		}
	}
	maxInt := int(^uint(0) >> 1)
	for d := 0; d <= 4; d++ {
		pts = append(pts, maxInt-d, -maxInt-1+d, (1<<62)+1+d*1000003)
	}
	for _, n := range pts {
		checkOne(n, report)
		total++
		if n > 2 {
			nontriv++
		}
	}
	// negative and small range through the generic path
	for n := -70000; n <= 70000; n++ {
		checkOne(n, report)
		total++
		if n > 2 {
			nontriv++
		}
	}
	// (2) the sweep: quick up to 2^24, thorough the whole positive int32 range and the negative one
	hi := int64(1) << 24
	if thorough {
		hi = int64(1)<<31 - 1
	}
	workers := runtime.GOMAXPROCS(0)
	chunk := int64(1) << 22
	var next int64 = 5
	var wg sync.WaitGroup
	for w := 0; w < workers; w++ {
		wg.Add(1)
		go func() {
			defer wg.Done()
			for {
				lo := atomic.AddInt64(&next, chunk) - chunk
				if lo > hi {
					return
				}
				e := lo + chunk - 1
				if e > hi {
					e = hi
				}
				c, nt := sweep(lo, e, report)
				atomic.AddInt64(&total, c)
				atomic.AddInt64(&nontriv, nt)
			}
		}()
	}
	wg.Wait()
	{
		// dense windows around every 2^k, 32 <= k <= 62 (64-bit range): +-2^12 quick, +-2^20 thorough
		win := int64(1) << 12
		if thorough {
			win = int64(1) << 20
		}
		for k := 32; k <= 62; k++ {
			k := k
			wg.Add(1)
			go func() {
				defer wg.Done()
				c := int64(1) << uint(k)
				hiw := c + win
				if k == 62 {
					hiw = c // beyond 2^62 Ceil panics; those points are covered by the generic path above
				}
				cnt, nt := sweep(c-win, hiw, report)
				atomic.AddInt64(&total, cnt)
				atomic.AddInt64(&nontriv, nt)
			}()
		}
		wg.Wait()
	}
	if thorough {
		// negative int32 range: Ceil = 2, Floor = n, IsPow false
		var nextN int64 = -(int64(1) << 31)
		for w := 0; w < workers; w++ {
			wg.Add(1)
			go func() {
				defer wg.Done()
				for {
					lo := atomic.AddInt64(&nextN, chunk) - chunk
					if lo > -70001 {
						return
					}
					e := lo + chunk - 1
					if e > -70001 {
						e = -70001
					}
					for m := lo; m <= e; m++ {
						mi := int(m)
						if CeilToPowerOfTwo(mi) != 2 || FloorToPowerOfTwo(mi) != mi || IsPowerOfTwo(mi) {
							checkOne(mi, report)
						}
					}
					atomic.AddInt64(&total, e-lo+1)
				}
			}()
		}
		wg.Wait()
	}
	var res seqmc.Result
	res.Property = "C20"
	res.Evaluations = total
	res.Distinct = nontriv
	res.Exhaustive = true
	res.Bounds = []string{fmt.Sprintf("math: every int in [-70000, %d]%s, dense windows 2^k+-2^%d for 32<=k<=62, plus 2^k-3..2^k+3 and -2^k-3..-2^k+3 for k<=62 and the MinInt/MaxInt neighbourhoods", hi, map[bool]string{true: " and every negative int32", false: ""}[thorough], map[bool]int{true: 20, false: 12}[thorough])}
	res.Samples = []string{"CeilToPowerOfTwo(4097)=8192", "FloorToPowerOfTwo(1<<33)", "ClosestPowerOfTwo(3)=4 (tie goes up)", "CeilToPowerOfTwo((1<<62)+1) panics"}
	for _, b := range viol {
		res.Violations = append(res.Violations, seqmc.Violation{Property: "C20", Scenario: "math", Sig: b.sig, Msg: b.msg, History: []seqmc.Op{{N: "n", A: []int{b.n}}}, Replays: 5})
	}
	if err := res.Write(); err != nil {
		t.Fatal(err)
	}
}

func absInt(n int) int {
	if n < 0 {
		if n == -n {
			return int(^uint(0) >> 1)
		}
		return -n
	}
	return n
}
