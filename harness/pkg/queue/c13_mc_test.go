package queue

// C13 — the lock-free task queue is a linearizable FIFO queue.
// Engine E1 (/verif/mc/sched): every interleaving, at the granularity of single atomic loads and
// compare-and-swaps (the rewriter swaps sync/atomic for a shim whose every operation is a
// scheduling point), of small sets of concurrent Enqueue/Dequeue calls on the REAL lockFreeQueue,
// up to a preemption bound; each complete execution's call/return history is checked against the
// sequential FIFO by brute-force search over linearisation orders.

import (
	"fmt"
	"os"
	"strings"
	"testing"

	"github.com/panjf2000/gnet/v2/internal/verifmc/sched"
	"github.com/panjf2000/gnet/v2/internal/verifmc/seqmc"
)

type qop struct {
	kind byte // 'E' or 'D'
	id   int  // task id for E
}

type qrec struct {
	thread    int
	kind      byte
	id        int // enqueued id, or dequeued id (-1 = empty)
	call, ret int
}

type qcfg struct {
	name    string
	pre     []int // tasks enqueued sequentially before the threads start
	lagTail bool  // make the tail pointer lag behind by one node (in-package surgery)
	threads [][]qop
}

type qscn struct {
	cfg   qcfg
	q     *lockFreeQueue
	clock int
	hist  []qrec
	done  int
}

func task(id int) *Task { return &Task{Param: id} }

func (s *qscn) Body() {
	s.q = NewLockFreeQueue().(*lockFreeQueue)
	for _, id := range s.cfg.pre {
		s.q.Enqueue(task(id))
	}
	if s.cfg.lagTail {
		// tail points at the node before the last one: the state an enqueuer leaves behind when it is
		// pre-empted between linking its node and swinging the tail
		s.q.tail = s.q.head
		for n := (*node)(s.q.head); n != nil && n.next != nil && (*node)(n.next).next != nil; n = (*node)(n.next) {
			s.q.tail = n.next
		}
	}
	for ti, ops := range s.cfg.threads {
		ti, ops := ti, ops
		sched.Go(fmt.Sprintf("t%d", ti), func() {
			for _, op := range ops {
				s.clock++
				r := qrec{thread: ti, kind: op.kind, id: op.id, call: s.clock}
				if op.kind == 'E' {
					s.q.Enqueue(task(op.id))
				} else {
					if t := s.q.Dequeue(); t != nil {
						r.id = t.Param.(int)
					} else {
						r.id = -1
					}
				}
				s.clock++
				r.ret = s.clock
				s.hist = append(s.hist, r)
			}
			s.done++
		})
	}
}

func (s *qscn) Observe() string {
	var sb strings.Builder
	for _, r := range s.hist {
		if r.kind == 'D' {
			fmt.Fprintf(&sb, "t%d:D=%d ", r.thread, r.id)
		}
	}
	return sb.String()
}

// linearizable searches for a total order consistent with real time and the FIFO specification.
func linearizable(pre []int, hist []qrec) bool {
	n := len(hist)
	used := make([]bool, n)
	var rec func(queue []int, placed int) bool
	rec = func(queue []int, placed int) bool {
		if placed == n {
			return true
		}
		for i := 0; i < n; i++ {
			if used[i] {
				continue
			}
			// minimal: no unplaced op returned before this one was called
			ok := true
			for j := 0; j < n; j++ {
				if !used[j] && j != i && hist[j].ret < hist[i].call {
					ok = false
					break
				}
			}
			if !ok {
				continue
			}
			r := hist[i]
			var nq []int
			switch {
			case r.kind == 'E':
				nq = append(append([]int{}, queue...), r.id)
			case r.id == -1:
				if len(queue) != 0 {
					continue
				}
				nq = queue
			default:
				if len(queue) == 0 || queue[0] != r.id {
					continue
				}
				nq = queue[1:]
			}
			used[i] = true
			if rec(nq, placed+1) {
				used[i] = false
				return true
			}
			used[i] = false
		}
		return false
	}
	return rec(append([]int{}, pre...), 0)
}

func (s *qscn) Check(out *sched.Outcome) (string, string) {
	if out.End != "complete" {
		return fmt.Sprintf("execution did not complete: %s after %d steps (blocked: %v); history %s", out.End, out.Steps, out.Blocked, s.render()), "queue:" + out.End
	}
	if s.done != len(s.cfg.threads) {
		return "not all threads finished", "queue:unfinished"
	}
	if !linearizable(s.cfg.pre, s.hist) {
		return "history is not linearizable w.r.t. the sequential FIFO queue: " + s.render(), "queue:notlinearizable"
	}
	// quiescent: Length and IsEmpty agree with the content
	inQueue := len(s.cfg.pre)
	enq := map[int]int{}
	for _, id := range s.cfg.pre {
		enq[id]++
	}
	deq := map[int]int{}
	for _, r := range s.hist {
		if r.kind == 'E' {
			inQueue++
			enq[r.id]++
		} else if r.id >= 0 {
			inQueue--
			deq[r.id]++
		}
	}
	if int(s.q.Length()) != inQueue || s.q.IsEmpty() != (inQueue == 0) {
		return fmt.Sprintf("at quiescence Length()=%d IsEmpty()=%v but %d tasks are in the queue; %s", s.q.Length(), s.q.IsEmpty(), inQueue, s.render()), "queue:length"
	}
	// final drain (scheduler detached): every enqueued task dequeued exactly once, nothing else
	for i := 0; i < 100; i++ {
		t := s.q.Dequeue()
		if t == nil {
			break
		}
		deq[t.Param.(int)]++
	}
	for id, n := range enq {
		if deq[id] != n {
			return fmt.Sprintf("task %d enqueued %d time(s), dequeued %d time(s); %s", id, n, deq[id], s.render()), "queue:lostordup"
		}
	}
	for id := range deq {
		if enq[id] == 0 {
			return fmt.Sprintf("dequeued task %d that was never enqueued", id), "queue:phantom"
		}
	}
	if s.q.Length() != 0 || !s.q.IsEmpty() {
		return fmt.Sprintf("after draining Length()=%d IsEmpty()=%v", s.q.Length(), s.q.IsEmpty()), "queue:length"
	}
	return "", ""
}

func (s *qscn) render() string {
	var sb strings.Builder
	fmt.Fprintf(&sb, "pre=%v ", s.cfg.pre)
	for _, r := range s.hist {
		if r.kind == 'E' {
			fmt.Fprintf(&sb, "[t%d E(%d) %d-%d] ", r.thread, r.id, r.call, r.ret)
		} else {
			fmt.Fprintf(&sb, "[t%d D=%d %d-%d] ", r.thread, r.id, r.call, r.ret)
		}
	}
	return sb.String()
}

func E(id int) qop { return qop{'E', id} }

var D = qop{'D', 0}

func c13Configs(thorough bool) []qcfg {
	cfgs := []qcfg{
		{name: "E|D", threads: [][]qop{{E(1)}, {D}}},
		{name: "E|E", threads: [][]qop{{E(1)}, {E(2)}}},
		{name: "D|D/1", pre: []int{1}, threads: [][]qop{{D}, {D}}},
		{name: "E|D/lagging-tail", pre: []int{1}, lagTail: true, threads: [][]qop{{E(2)}, {D}}},
		{name: "E,E|D,D", threads: [][]qop{{E(1), E(2)}, {D, D}}},
		{name: "E,D|E,D", threads: [][]qop{{E(1), D}, {E(2), D}}},
		{name: "E|E|D", threads: [][]qop{{E(1)}, {E(2)}, {D}}},
		{name: "E|D|D", threads: [][]qop{{E(1)}, {D}, {D}}},
		{name: "E|D|D/1", pre: []int{9}, threads: [][]qop{{E(1)}, {D}, {D}}},
		{name: "D|D/2", pre: []int{8, 9}, threads: [][]qop{{D}, {D}}},
		{name: "E|E|D,D", threads: [][]qop{{E(1)}, {E(2)}, {D, D}}},
	}
	if thorough {
		cfgs = append(cfgs,
			qcfg{name: "E,E|E,D|D", threads: [][]qop{{E(1), E(2)}, {E(3), D}, {D}}},
			qcfg{name: "E|E|D|D", threads: [][]qop{{E(1)}, {E(2)}, {D}, {D}}},
			qcfg{name: "D,E|D,E/2", pre: []int{8, 9}, threads: [][]qop{{D, E(1)}, {D, E(2)}}},
			qcfg{name: "E|D/lagging-tail-2", pre: []int{1, 2}, lagTail: true, threads: [][]qop{{E(3)}, {D}, {D}}},
		)
	}
	return cfgs
}

func TestMC_C13(t *testing.T) {
	thorough := seqmc.Tier() == "thorough"
	pb := 3
	if thorough {
		pb = 5
	}
	pb = sched.EnvInt("MC_PB", pb)
	var bounds []sched.Bound
	for b := 0; b <= pb; b++ {
		bounds = append(bounds, sched.Bound{PB: b})
	}
	cfgs := c13Configs(thorough)
	if rp := seqmc.ReplayFile(); rp != "" {
		v, err := sched.LoadViolation(rp)
		if err != nil {
			t.Fatal(err)
		}
		for _, c := range c13Configs(true) {
			if c.name == v.Scenario {
				c := c
				msg, sig, trace := sched.ReplaySchedule(sched.Config{Property: "C13", Name: c.name, New: func() sched.Scenario { return &qscn{cfg: c} }, Horizon: 5000}, v.Schedule)
				if msg != "" {
					fmt.Printf("REPLAY-VIOLATION property=C13 sig=%s %s\n%s\n", sig, msg, strings.Join(trace, "\n"))
					t.Fail()
					return
				}
			}
		}
		fmt.Println("REPLAY-OK property=C13")
		return
	}
	si, sn := seqmc.Shard()
	var res seqmc.Result
	res.Property = "C13"
	res.Exhaustive = true
	dl := seqmc.Deadline()
	mine := 0
	for i := range cfgs {
		if i%sn == si {
			mine++
		}
	}
	k := 0
	for i, c := range cfgs {
		if i%sn != si {
			continue
		}
		c := c
		st, vs := sched.Explore(sched.Config{Property: "C13", Name: c.name, New: func() sched.Scenario { return &qscn{cfg: c} }, Bounds: bounds, Horizon: 5000, Deadline: sched.FairDeadline(dl, k, mine)})
		k++
		if st.Steps == 0 {
			fmt.Fprintln(os.Stderr, "C13: no scheduling points were hit: the queue is not instrumented")
			t.Fatal("vacuous")
		}
		res.AddSched(st, vs)
	}
	res.Exhaustive = len(res.Caps) == 0
	res.Bounds = []string{fmt.Sprintf("every interleaving with <= %d preemptions (iterated 0..%d) of %d thread configurations at atomic-operation granularity", pb, pb, len(cfgs))}
	if err := res.Write(); err != nil {
		t.Fatal(err)
	}
}
