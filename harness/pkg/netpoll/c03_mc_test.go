package netpoll

// C03 (poller seam) — asynchronous requests run exactly once; no lost wake-up of a loop.
// Engine E1: the REAL Poller (both epoll variants) on a REAL epoll instance and eventfd; every
// atomic operation of the poller and of the lock-free queues, every eventfd read/write and every
// epoll_wait is a scheduling point. One loop thread runs Polling, P producer threads call Trigger.

import (
	"errors"
	"fmt"
	"os"
	"strings"
	"testing"

	realunix "golang.org/x/sys/unix"

	"github.com/panjf2000/gnet/v2/internal/verifmc/mcsys"
	"github.com/panjf2000/gnet/v2/internal/verifmc/sched"
	"github.com/panjf2000/gnet/v2/internal/verifmc/seqmc"
	errorx "github.com/panjf2000/gnet/v2/pkg/errors"
	"github.com/panjf2000/gnet/v2/pkg/queue"
)

type ptask struct {
	prio   queue.EventPriority
	nested bool // the task itself triggers one more (low-priority) task: the ET re-arm pattern
}

type c03cfg struct {
	threshold int // > 0: scale the poller's high-priority threshold (1024) down, so that the "urgent queue is at its threshold" paths are reachable in short executions
	name      string
	preLow    int // low-priority tasks queued before the loop starts
	preHigh   int
	producers [][]ptask
	saturate  bool // the wake-up eventfd's counter is at its maximum: the next write(2) to it really returns EAGAIN
}

type c03scn struct {
	cfg       c03cfg
	p         *Poller
	loopTID   int
	issued    map[int]string // task id -> "producer/priority"
	order     [][]int        // per producer: ids of its high-priority tasks in issue order
	ran       []int
	wrongThr  []int
	nextID    int
	snapshot  string
	quiescent bool
	pollErr   error
	loopDone  bool
	trigErr   []string
	msgs      []string
}

func (s *c03scn) newTask(who string) (int, queue.Func) {
	s.nextID++
	id := s.nextID
	s.issued[id] = who
	return id, func(any) error {
		s.ran = append(s.ran, id)
		if sched.CurrentThread() != s.loopTID {
			s.wrongThr = append(s.wrongThr, id)
		}
		return nil
	}
}

func (s *c03scn) Body() {
	mcsys.Reset()
	s.issued = map[int]string{}
	p, err := OpenPoller()
	if err != nil {
		panic(err)
	}
	s.p = p
	if s.cfg.threshold > 0 {
		p.highPriorityEventsThreshold = int32(s.cfg.threshold)
	}
	if s.cfg.saturate {
		// an eventfd counter holds at most 2^64-2; nobody reads it in the default poller, so after
		// enough wake-ups (here: one big write) Trigger's write fails with EAGAIN for real and the
		// poller has to drain the counter and write again
		b := []byte{0xfe, 0xff, 0xff, 0xff, 0xff, 0xff, 0xff, 0xff}
		if _, err := realunix.Write(c03Efd(p), b); err != nil {
			panic(err)
		}
	}
	for i := 0; i < s.cfg.preHigh; i++ {
		_, f := s.newTask("pre/high")
		if err := p.Trigger(queue.HighPriority, f, nil); err != nil {
			s.trigErr = append(s.trigErr, err.Error())
		}
	}
	for i := 0; i < s.cfg.preLow; i++ {
		_, f := s.newTask("pre/low")
		if err := p.Trigger(queue.LowPriority, f, nil); err != nil {
			s.trigErr = append(s.trigErr, err.Error())
		}
	}
	s.order = make([][]int, len(s.cfg.producers))
	sched.Go("loop", func() {
		s.loopTID = sched.CurrentThread()
		s.pollErr = c03Polling(p)
		s.loopDone = true
	})
	for pi, tasks := range s.cfg.producers {
		pi, tasks := pi, tasks
		sched.Go(fmt.Sprintf("producer%d", pi), func() {
			for _, t := range tasks {
				t := t
				id, f := s.newTask(fmt.Sprintf("p%d/%d", pi, t.prio))
				fn := f
				if t.nested {
					fn = func(a any) error {
						_ = f(a)
						_, g := s.newTask(fmt.Sprintf("p%d/nested", pi))
						if err := p.Trigger(queue.LowPriority, g, nil); err != nil {
							s.trigErr = append(s.trigErr, err.Error())
						}
						return nil
					}
				}
				if t.prio == queue.HighPriority {
					s.order[pi] = append(s.order[pi], id)
				}
				if err := p.Trigger(t.prio, fn, nil); err != nil {
					s.trigErr = append(s.trigErr, err.Error())
				}
			}
		})
	}
	// quiescence: all producers have returned and the loop is parked in epoll_wait
	sched.WaitIdle()
	s.quiescent = true
	s.snapshot = s.evaluate()
	// the loop must still be wakeable: a sentinel ends it
	if err := p.Trigger(queue.HighPriority, func(any) error { return errorx.ErrEngineShutdown }, nil); err != nil {
		s.trigErr = append(s.trigErr, err.Error())
	}
	sched.WaitIdle()
	_ = p.Close()
}

// evaluate is the oracle at the quiescent point.
func (s *c03scn) evaluate() string {
	count := map[int]int{}
	for _, id := range s.ran {
		count[id]++
	}
	var miss, dup []string
	for id, who := range s.issued {
		switch n := count[id]; {
		case n == 0:
			miss = append(miss, fmt.Sprintf("%d(%s)", id, who))
		case n > 1:
			dup = append(dup, fmt.Sprintf("%d(%s)x%d", id, who, n))
		}
	}
	if len(miss) > 0 {
		return fmt.Sprintf("LOST: loop is parked in epoll_wait but %d accepted task(s) never ran: %s (urgent queue len %d, low queue len %d, wakeupCall %d)",
			len(miss), strings.Join(miss, ","), s.p.urgentAsyncTaskQueue.Length(), s.p.asyncTaskQueue.Length(), s.p.wakeupCall)
	}
	if len(dup) > 0 {
		return "DUP: task(s) ran more than once: " + strings.Join(dup, ",")
	}
	if len(s.wrongThr) > 0 {
		return fmt.Sprintf("THREAD: tasks %v ran on a thread other than the loop", s.wrongThr)
	}
	pos := map[int]int{}
	for i, id := range s.ran {
		pos[id] = i
	}
	for pi, ids := range s.order {
		for i := 1; i < len(ids); i++ {
			if pos[ids[i-1]] > pos[ids[i]] {
				return fmt.Sprintf("ORDER: high-priority tasks %d and %d of producer %d ran out of issue order", ids[i-1], ids[i], pi)
			}
		}
	}
	return ""
}

func (s *c03scn) Observe() string { return fmt.Sprint(s.ran) }

func (s *c03scn) Check(out *sched.Outcome) (string, string) {
	defer mcsys.CloseAllOpen()
	if len(s.trigErr) > 0 {
		return "Trigger failed: " + strings.Join(s.trigErr, "; "), "poller:triggererr"
	}
	if !s.quiescent {
		return fmt.Sprintf("execution ended (%s after %d steps, blocked %v) before the harness reached quiescence", out.End, out.Steps, out.Blocked), "poller:" + out.End
	}
	if s.snapshot != "" {
		sig := "poller:" + strings.ToLower(strings.SplitN(s.snapshot, ":", 2)[0])
		return s.snapshot + fmt.Sprintf(" [ran %v]", s.ran), sig
	}
	if out.End != "complete" || !s.loopDone {
		return fmt.Sprintf("the loop did not react to the sentinel after quiescence: end=%s blocked=%v", out.End, out.Blocked), "poller:sentinel-lost"
	}
	if !errors.Is(s.pollErr, errorx.ErrEngineShutdown) {
		return fmt.Sprintf("Polling returned %v", s.pollErr), "poller:pollerr"
	}
	return "", ""
}

var (
	hi = ptask{prio: queue.HighPriority}
	lo = ptask{prio: queue.LowPriority}
	ne = ptask{prio: queue.HighPriority, nested: true}
)

func c03Configs(thorough bool) []c03cfg {
	cfgs := []c03cfg{
		{name: "1x1", producers: [][]ptask{{hi}}},
		{name: "1x2", producers: [][]ptask{{hi, lo}}},
		{name: "2x1", producers: [][]ptask{{hi}, {lo}}},
		{name: "2x1hh", producers: [][]ptask{{hi}, {hi}}},
		{name: "2x2", producers: [][]ptask{{hi, hi}, {lo, hi}}},
		{name: "nested", producers: [][]ptask{{ne}, {lo}}},
		{name: "saturated-efd/1x1", saturate: true, producers: [][]ptask{{hi}}},
		{name: "saturated-efd/2x1", saturate: true, producers: [][]ptask{{hi}, {lo}}},
		{name: "pre257low+1", preLow: 257, producers: [][]ptask{{lo}}},
		{name: "pre1024high+1", preHigh: 1024, producers: [][]ptask{{lo}}},
		{name: "pre1024high+hh", preHigh: 1024, producers: [][]ptask{{hi, hi}}},
		// the same threshold paths with the threshold scaled from 1024 down to 6 (the code compares
		// the urgent queue's length with it and does nothing else with the number)
		{name: "thr6/pre6high+lo", threshold: 6, preHigh: 6, producers: [][]ptask{{lo}}},
		{name: "thr6/pre6high+hh", threshold: 6, preHigh: 6, producers: [][]ptask{{hi, hi}}},
		{name: "thr6/pre6high+lo|hi", threshold: 6, preHigh: 6, producers: [][]ptask{{lo}, {hi}}},
	}
	if thorough {
		cfgs = append(cfgs,
			c03cfg{name: "3x1", producers: [][]ptask{{hi}, {lo}, {hi}}},
			c03cfg{name: "2x3", producers: [][]ptask{{hi, lo, hi}, {lo, hi, hi}}},
			c03cfg{name: "nested2", producers: [][]ptask{{ne, hi}, {ne}}},
		)
	}
	return cfgs
}

func TestMC_C03(t *testing.T) {
	thorough := seqmc.Tier() == "thorough"
	pb := 2
	if thorough {
		pb = 3
	}
	pb = sched.EnvInt("MC_PB", pb)
	var bounds []sched.Bound
	for b := 0; b <= pb; b++ {
		bounds = append(bounds, sched.Bound{PB: b})
	}
	dl := seqmc.Deadline()
	mk := func(c c03cfg) sched.Config {
		return sched.Config{Property: "C03", Name: c03Variant + "/" + c.name, New: func() sched.Scenario { return &c03scn{cfg: c} }, Bounds: bounds, Horizon: 60000, Deadline: dl}
	}
	if rp := seqmc.ReplayFile(); rp != "" {
		v, err := sched.LoadViolation(rp)
		if err != nil {
			t.Fatal(err)
		}
		for _, c := range c03Configs(true) {
			if c03Variant+"/"+c.name == v.Scenario {
				msg, sig, trace := sched.ReplaySchedule(mk(c), v.Schedule)
				if msg != "" {
					fmt.Printf("REPLAY-VIOLATION property=C03 sig=%s %s\n%s\n", sig, msg, strings.Join(trace, "\n"))
					t.Fail()
					return
				}
			}
		}
		fmt.Println("REPLAY-OK property=C03")
		return
	}
	si, sn := seqmc.Shard()
	var res seqmc.Result
	res.Property = "C03"
	cfgs := c03Configs(thorough)
	// big pre-queued configurations are long executions: they get PB <= 1
	mine := 0
	for i := range cfgs {
		if i%sn == si {
			mine++
		}
	}
	k := 0
	for i, c := range cfgs {
		if i%sn != si {
			continue
		}
		cfg := mk(c)
		cfg.Deadline = sched.FairDeadline(cfg.Deadline, k, mine)
		k++
		if c.preLow+c.preHigh > 8 {
			cfg.Horizon = 400000
			cfg.Bounds = []sched.Bound{{PB: 0}, {PB: 1}}
			if thorough {
				// one producer's two high-priority requests around the 1024-task threshold: needs a
				// switch to the loop and back
				cfg.Bounds = append(cfg.Bounds, sched.Bound{PB: 2})
			}
		}
		st, vs := sched.Explore(cfg)
		if st.Steps == 0 {
			fmt.Fprintln(os.Stderr, "C03: no scheduling points were hit: the poller is not instrumented")
			t.Fatal("vacuous")
		}
		res.AddSched(st, vs)
	}
	res.Exhaustive = len(res.Caps) == 0
	res.Bounds = []string{fmt.Sprintf("poller seam (%s): every interleaving with <= %d preemptions (iterated) of 1 loop + 1..3 producers x 1..3 Trigger calls at the granularity of atomics, queue operations, eventfd and epoll system calls; pre-queued 257-low / 1024-high configurations with <= 1 preemption", c03Variant, pb)}
	if err := res.Write(); err != nil {
		t.Fatal(err)
	}
}
