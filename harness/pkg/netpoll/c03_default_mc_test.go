//go:build !poll_opt

package netpoll

func c03Polling(p *Poller) error {
	return p.Polling(func(fd int, ev IOEvent, flags IOFlags) error { return nil })
}

const c03Variant = "default"

func c03Efd(p *Poller) int { return p.efd }
