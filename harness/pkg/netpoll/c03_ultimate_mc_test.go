//go:build poll_opt

package netpoll

func c03Polling(p *Poller) error { return p.Polling() }

const c03Variant = "poll_opt"

func c03Efd(p *Poller) int { return p.epa.FD }
