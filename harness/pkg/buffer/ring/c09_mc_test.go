package ring

// C09 — ring.Buffer behaves as an unbounded FIFO byte queue.
// Explicit-state search (engine E2, /verif/mc/seqmc) over the real ring.Buffer with a []byte FIFO
// as reference. Injected into package ring by the overlay; never part of gnet.

import (
	"bytes"
	"errors"
	"fmt"
	"io"
	"testing"

	"github.com/panjf2000/gnet/v2/internal/verifmc/seqmc"
	bsPool "github.com/panjf2000/gnet/v2/pkg/pool/byteslice"
)

var errBoom = errors.New("boom")

// answers of a scripted reader/writer: n-kind in the high digit, err-kind in the low one.
// n-kinds: 0 → 0, 1 → 1, 2 → len-1, 3 → len ; err-kinds: 0 nil, 1 EOF (reader) / boom (writer), 2 boom (reader)
func scriptN(kind, l int) int {
	switch kind {
	case 0:
		return 0
	case 1:
		if l < 1 {
			return l
		}
		return 1
	case 2:
		if l < 1 {
			return 0
		}
		return l - 1
	}
	return l
}

type c09 struct {
	rb     *Buffer
	ref    []byte // reference FIFO
	seq    int    // position of the next byte in the stream written so far
	salt   uint64 // per-instance salt: stale bytes of earlier instances in recycled memory never look right
	capMax int    // states with Cap() > capMax are checked but not expanded (0 = no bound)
	full   bool   // thorough alphabet
	seed   []seqmc.Op
}

func (m *c09) nextBytes(n int) []byte {
	p := make([]byte, n)
	for i := range p {
		p[i] = seqmc.ByteAt(m.salt, m.seq)
		m.seq++
	}
	return p
}

func (m *c09) Key() string {
	return fmt.Sprintf("%d/%d/%d/%v", m.rb.size, m.rb.r, m.rb.w, m.rb.isEmpty) + seqmc.Scalars(m.rb)
}

func (m *c09) Expand() bool { return m.capMax == 0 || m.rb.Cap() <= m.capMax }

func uniq(xs []int) []int {
	var out []int
	seen := map[int]bool{}
	for _, x := range xs {
		if x < 0 || seen[x] {
			continue
		}
		seen[x] = true
		out = append(out, x)
	}
	return out
}

func readerScripts(maxLen int) [][]int {
	// every answer list whose non-final answers have err=nil; final answer any; then implicit (0,EOF)
	var out [][]int
	var rec func(prefix []int)
	rec = func(prefix []int) {
		for n := 0; n < 4; n++ {
			for e := 0; e < 3; e++ {
				s := append(append([]int{}, prefix...), n*10+e)
				out = append(out, s)
				if e == 0 && len(s) < maxLen {
					rec(s)
				}
			}
		}
	}
	rec(nil)
	return out
}

func writerScripts(maxLen int) [][]int {
	var out [][]int
	var rec func(prefix []int)
	rec = func(prefix []int) {
		for n := 0; n < 4; n++ {
			for e := 0; e < 2; e++ {
				s := append(append([]int{}, prefix...), n*10+e)
				out = append(out, s)
				if e == 0 && n == 3 && len(s) < maxLen {
					rec(s)
				}
			}
		}
	}
	rec(nil)
	return out
}

var (
	rScriptsQ = readerScripts(2)
	rScriptsT = readerScripts(3)
	wScripts  = writerScripts(2)
)

func (m *c09) Ops() []seqmc.Op {
	b, a, c := m.rb.Buffered(), m.rb.Available(), m.rb.Cap()
	ks := uniq([]int{0, 1, 2, b - 1, b, b + 1, a - 1, a, a + 1, c, c + 1})
	if m.full || c >= 512 {
		ks = uniq(append(ks, 511, 512, 513))
	}
	var ops []seqmc.Op
	for _, k := range ks {
		ops = append(ops, seqmc.Op{N: "Write", A: []int{k}})
	}
	ops = append(ops, seqmc.Op{N: "WriteByte"}, seqmc.Op{N: "ReadByte"}, seqmc.Op{N: "Bytes"}, seqmc.Op{N: "Reset"})
	for _, k := range ks {
		ops = append(ops, seqmc.Op{N: "Read", A: []int{k}})
	}
	for _, k := range append([]int{-1}, ks...) {
		ops = append(ops, seqmc.Op{N: "Peek", A: []int{k}})
		ops = append(ops, seqmc.Op{N: "Discard", A: []int{k}})
	}
	for _, k := range uniq([]int{0, 1, a, a + 1}) {
		ops = append(ops, seqmc.Op{N: "WriteString", A: []int{k}})
	}
	rs := rScriptsQ
	if m.full {
		rs = rScriptsT
	}
	for _, s := range rs {
		ops = append(ops, seqmc.Op{N: "ReadFrom", A: s})
	}
	for _, s := range wScripts {
		ops = append(ops, seqmc.Op{N: "WriteTo", A: s})
	}
	return ops
}

type scriptReader struct {
	m      *c09
	script []int
	i      int
	given  []byte
	// a conforming io.Reader that is offered no room returns (0, nil) and keeps its data: the
	// script does not advance.  ReadFrom that keeps offering an empty buffer never makes progress
	// with such a reader; after maxNoRoom consecutive empty offers the reader fails the call and
	// the oracle reports the livelock.
	noRoom  int
	starved bool
}

const maxNoRoom = 8

func (r *scriptReader) Read(p []byte) (int, error) {
	if len(p) == 0 {
		if r.noRoom++; r.noRoom > maxNoRoom {
			r.starved = true
			return 0, errBoom
		}
		return 0, nil
	}
	r.noRoom = 0
	if r.i >= len(r.script) {
		return 0, io.EOF
	}
	a := r.script[r.i]
	r.i++
	n := scriptN(a/10, len(p))
	d := r.m.nextBytes(n)
	copy(p, d)
	r.given = append(r.given, d...)
	switch a % 10 {
	case 1:
		return n, io.EOF
	case 2:
		return n, errBoom
	}
	return n, nil
}

type scriptWriter struct {
	script []int
	i      int
	got    []byte
	calls  int
}

func (w *scriptWriter) Write(p []byte) (int, error) {
	w.calls++
	if w.i >= len(w.script) {
		w.got = append(w.got, p...)
		return len(p), nil
	}
	a := w.script[w.i]
	w.i++
	n := scriptN(a/10, len(p))
	w.got = append(w.got, p[:n]...)
	if a%10 == 1 {
		return n, errBoom
	}
	return n, nil
}

func minInt(a, b int) int {
	if a < b {
		return a
	}
	return b
}

func (m *c09) state() string {
	return fmt.Sprintf("[size=%d r=%d w=%d empty=%v ref=%d]", m.rb.size, m.rb.r, m.rb.w, m.rb.isEmpty, len(m.ref))
}

// invariants checks the getters and the whole content against the reference.
func (m *c09) invariants(op string) (string, string) {
	churnPool(m.rb.Cap(), m.rb.Cap()/2, 1024, 2048)
	rb := m.rb
	if rb.Buffered() != len(m.ref) {
		return fmt.Sprintf("after %s: Buffered()=%d, reference holds %d bytes %s", op, rb.Buffered(), len(m.ref), m.state()), opName(op) + ":buffered"
	}
	if rb.Buffered()+rb.Available() != rb.Cap() {
		return fmt.Sprintf("after %s: Buffered %d + Available %d != Cap %d", op, rb.Buffered(), rb.Available(), rb.Cap()), opName(op) + ":cap"
	}
	if rb.IsEmpty() != (len(m.ref) == 0) {
		return fmt.Sprintf("after %s: IsEmpty()=%v but content has %d bytes %s", op, rb.IsEmpty(), len(m.ref), m.state()), opName(op) + ":isempty"
	}
	if rb.IsFull() != (len(m.ref) > 0 && len(m.ref) == rb.Cap()) {
		return fmt.Sprintf("after %s: IsFull()=%v with %d bytes, Cap %d", op, rb.IsFull(), len(m.ref), rb.Cap()), opName(op) + ":isfull"
	}
	h, t := rb.Peek(-1)
	if got := append(append([]byte{}, h...), t...); !bytes.Equal(got, m.ref) {
		return fmt.Sprintf("after %s: content differs from reference FIFO: %s %s", op, diff(got, m.ref), m.state()), opName(op) + ":content"
	}
	return "", ""
}

func diff(got, want []byte) string {
	if len(got) != len(want) {
		return fmt.Sprintf("len %d want %d", len(got), len(want))
	}
	for i := range got {
		if got[i] != want[i] {
			return fmt.Sprintf("first difference at offset %d of %d: got %d want %d", i, len(got), got[i], want[i])
		}
	}
	return "equal"
}

func (m *c09) Apply(op seqmc.Op) (string, string) {
	rb := m.rb
	switch op.N {
	case "Write", "WriteString":
		p := m.nextBytes(op.A[0])
		var n int
		var err error
		if op.N == "Write" {
			n, err = rb.Write(p)
		} else {
			n, err = rb.WriteString(string(p))
		}
		m.ref = append(m.ref, p...)
		if n != len(p) || err != nil {
			return fmt.Sprintf("%s(%d) = %d, %v", op.N, len(p), n, err), op.N + ":ret"
		}
	case "WriteByte":
		p := m.nextBytes(1)
		err := rb.WriteByte(p[0])
		m.ref = append(m.ref, p...)
		if err != nil {
			return fmt.Sprintf("WriteByte = %v", err), "WriteByte:ret"
		}
	case "ReadByte":
		b, err := rb.ReadByte()
		if len(m.ref) == 0 {
			if err == nil {
				return "ReadByte on empty buffer returned no error", "ReadByte:empty"
			}
		} else {
			if err != nil || b != m.ref[0] {
				return fmt.Sprintf("ReadByte = %d, %v; want %d", b, err, m.ref[0]), "ReadByte:ret"
			}
			m.ref = m.ref[1:]
		}
	case "Bytes":
		got := rb.Bytes()
		if !bytes.Equal(got, m.ref) {
			return "Bytes(): " + diff(got, m.ref), "Bytes:content"
		}
		// Bytes "only copies": the caller owns the result.  Scribbling over it (up to its capacity)
		// must not reach the buffer's own (pooled) storage.
		full := got[:cap(got)]
		for i := range full {
			full[i] ^= 0xA5
		}
		h, t := rb.Peek(-1)
		if now := append(append([]byte{}, h...), t...); !bytes.Equal(now, m.ref) {
			return "Bytes() returned a slice that aliases the buffer's storage: after writing to it the content is " + diff(now, m.ref), "Bytes:alias"
		}
	case "Reset":
		rb.Reset()
		m.ref = nil
	case "Read":
		k := op.A[0]
		p := make([]byte, k)
		n, err := rb.Read(p)
		want := minInt(k, len(m.ref))
		if n != want {
			return fmt.Sprintf("Read(%d) = %d, %v; want %d %s", k, n, err, want, m.state()), "Read:count"
		}
		if !bytes.Equal(p[:n], m.ref[:n]) {
			return fmt.Sprintf("Read(%d): %s", k, diff(p[:n], m.ref[:n])), "Read:content"
		}
		if k > 0 && len(m.ref) > 0 && err != nil {
			return fmt.Sprintf("Read(%d) of %d buffered bytes failed: %v", k, len(m.ref), err), "Read:err"
		}
		m.ref = m.ref[n:]
	case "Peek":
		k := op.A[0]
		h, t := rb.Peek(k)
		want := len(m.ref)
		if k > 0 && k < want {
			want = k
		}
		got := append(append([]byte{}, h...), t...)
		if !bytes.Equal(got, m.ref[:want]) {
			return fmt.Sprintf("Peek(%d): %s %s", k, diff(got, m.ref[:want]), m.state()), "Peek:content"
		}
	case "Discard":
		k := op.A[0]
		n, err := rb.Discard(k)
		want := 0
		if k > 0 {
			want = minInt(k, len(m.ref))
		}
		if n != want || err != nil {
			return fmt.Sprintf("Discard(%d) = %d, %v; want %d", k, n, err, want), "Discard:count"
		}
		m.ref = m.ref[n:]
	case "ReadFrom":
		r := &scriptReader{m: m, script: op.A}
		n, err := rb.ReadFrom(r)
		if r.starved {
			return fmt.Sprintf("ReadFrom%v offered the reader an empty buffer %d times in a row: a conforming reader that has data never gets to deliver it", op.A, maxNoRoom+1), "ReadFrom:noroom"
		}
		m.ref = append(m.ref, r.given...)
		if n != int64(len(r.given)) {
			return fmt.Sprintf("ReadFrom%v = %d, %v but the reader handed out %d bytes", op.A, n, err, len(r.given)), "ReadFrom:count"
		}
		if msg, _ := m.invariants(op.String()); msg != "" {
			// classify by the shape of the reader's behaviour rather than by the exact script
			return msg, "ReadFrom:" + classifyReader(op.A)
		}
	case "WriteTo":
		w := &scriptWriter{script: op.A}
		before := len(m.ref)
		n, err := rb.WriteTo(w)
		if n != int64(len(w.got)) {
			return fmt.Sprintf("WriteTo%v = %d, %v but the writer accepted %d bytes", op.A, n, err, len(w.got)), "WriteTo:count"
		}
		if len(w.got) > len(m.ref) || !bytes.Equal(w.got, m.ref[:len(w.got)]) {
			return fmt.Sprintf("WriteTo%v handed the writer bytes that are not the front of the queue", op.A), "WriteTo:content"
		}
		m.ref = m.ref[len(w.got):]
		_ = before
		if msg, _ := m.invariants(op.String()); msg != "" {
			return msg, "WriteTo:" + classifyWriter(op.A, w.calls)
		}
	default:
		panic("unknown op " + op.N)
	}
	return m.invariants(op.String())
}

func classifyReader(s []int) string {
	// first answer's shape decides all confirmed defects: zero/short/full and error kind
	if len(s) == 0 {
		return "none"
	}
	names := []string{"zero", "one", "short", "full"}
	errs := []string{"nil", "eof", "err"}
	out := names[s[0]/10] + "-" + errs[s[0]%10]
	if len(s) > 1 {
		out += "+more"
	}
	return out
}

func classifyWriter(s []int, calls int) string {
	if len(s) == 0 {
		return "none"
	}
	names := []string{"zero", "one", "short", "full"}
	errs := []string{"nil", "err"}
	return names[s[0]/10] + "-" + errs[s[0]%10]
}

func newC09(size int, capMax int, full bool, seed []seqmc.Op) func() seqmc.Instance {
	return func() seqmc.Instance {
		m := &c09{rb: New(size), capMax: capMax, full: full, salt: seqmc.Salt()}
		for _, op := range seed {
			if msg, _ := m.Apply(op); msg != "" {
				panic("seed history violates the property: " + msg)
			}
		}
		return m
	}
}

func TestMC_C09(t *testing.T) {
	var res seqmc.Result
	res.Property = "C09"
	res.Exhaustive = true
	thorough := seqmc.Tier() == "thorough"
	dl := seqmc.Deadline()

	if rp := seqmc.ReplayFile(); rp != "" {
		replayC09(t, rp)
		return
	}

	capMax, depthB := 32, 3
	if thorough {
		capMax, depthB = 64, 4
	}
	// (a) closure from small power-of-two rings under a capacity bound: every cursor position
	for _, size := range []int{2, 4, 8, 16} {
		st, vs := seqmc.Run(seqmc.Config{Property: "C09", Scenario: fmt.Sprintf("closure/New(%d)/cap<=%d", size, capMax),
			New: newC09(size, capMax, thorough, nil), Depth: 1 << 20, Deadline: dl, Outcome: outcomeC09})
		res.Add(st, vs)
	}
	// (b) depth-bounded from the sizes around the growth-policy threshold and from wrapped seeds
	type seedT struct {
		size int
		seed []seqmc.Op
	}
	seeds := []seedT{{0, nil}, {1024, nil}, {4096, nil}, {8192, nil}}
	for _, size := range []int{1024, 4096} {
		for _, a := range []int{1, size / 2, size - 1} {
			for _, b := range []int{0, 1, a} {
				seeds = append(seeds, seedT{size, []seqmc.Op{{N: "Write", A: []int{size}}, {N: "Read", A: []int{a}}, {N: "Write", A: []int{b}}}})
			}
		}
	}
	// non-power-of-two capacity after 1.25x growth (5120)
	seeds = append(seeds, seedT{4096, []seqmc.Op{{N: "Write", A: []int{4097}}, {N: "Read", A: []int{100}}}})
	for _, s := range seeds {
		st, vs := seqmc.Run(seqmc.Config{Property: "C09", Scenario: fmt.Sprintf("depth/New(%d)+%s", s.size, seqmc.HistString(s.seed)),
			New: newC09(s.size, 0, thorough, s.seed), Depth: depthB, Deadline: dl, Outcome: outcomeC09})
		for i := range vs {
			vs[i].History = append(append([]seqmc.Op{}, s.seed...), vs[i].History...)
			vs[i].Scenario = fmt.Sprintf("New(%d)", s.size)
		}
		res.Add(st, vs)
	}
	for i := range res.Violations {
		v := &res.Violations[i]
		if len(v.Scenario) > 8 && v.Scenario[:8] == "closure/" {
			var size int
			fmt.Sscanf(v.Scenario, "closure/New(%d)", &size)
			v.Scenario = fmt.Sprintf("New(%d)", size)
		}
	}
	res.Exhaustive = len(res.Caps) == 0
	res.Bounds = []string{fmt.Sprintf("closure capacity bound %d (all reachable cursor states of rings 2..%d, closed under all ops)", capMax, capMax),
		fmt.Sprintf("depth %d from %d seed states around 1024/4096/5120/8192", depthB, len(seeds)),
		fmt.Sprintf("reader scripts <=%d answers, writer scripts <=2 answers", map[bool]int{false: 2, true: 3}[thorough])}
	res.Samples = []string{
		"New(4); Write(3); Read(2); Write(3); ReadFrom[21 30]; WriteTo[10 1]",
		"New(4096); Write(4096); Read(1); Write(1); WriteByte; Peek(-1)",
	}
	if err := res.Write(); err != nil {
		t.Fatal(err)
	}
	for _, v := range res.Violations {
		t.Logf("violation %s: %s  history: %s", v.Sig, v.Msg, seqmc.HistString(v.History))
	}
}

func outcomeC09(in seqmc.Instance) string {
	m := in.(*c09)
	return fmt.Sprintf("%d/%v/%v", m.rb.Cap(), m.rb.IsEmpty(), m.rb.IsFull())
}

func replayC09(t *testing.T, path string) {
	v, err := seqmc.LoadViolation(path)
	if err != nil {
		t.Fatal(err)
	}
	var size int
	fmt.Sscanf(v.Scenario, "New(%d)", &size)
	_, msg, sig, at := seqmc.Replay(newC09(size, 0, true, nil), v.History)
	if msg != "" {
		fmt.Printf("REPLAY-VIOLATION property=C09 sig=%s step=%d %s\n", sig, at, msg)
		t.Fail()
		return
	}
	fmt.Println("REPLAY-OK property=C09 (history no longer violates)")
}

// opName strips the arguments from a rendered operation (signatures must not depend on sizes).
func opName(op string) string {
	for i := 0; i < len(op); i++ {
		if op[i] == '(' {
			return op[:i]
		}
	}
	return op
}

// churnPool plays an unrelated user of the shared byte-slice pool: whatever memory the buffer
// under test still references must not be handed out by the pool.
func churnPool(sizes ...int) {
	var held [][]byte
	for _, k := range sizes {
		for r := 0; k > 0 && r < 3; r++ { // several at once: sync.Pool returns its private slot first
			b := bsPool.Get(k)
			full := b[:cap(b)]
			for i := range full {
				full[i] = 0xA5
			}
			held = append(held, b)
		}
	}
	for _, b := range held {
		bsPool.Put(b)
	}
}
