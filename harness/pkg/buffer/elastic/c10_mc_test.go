package elastic

// C10 — elastic.RingBuffer and elastic.Buffer (ring + linked list) behave as one FIFO byte queue.
// Explicit-state search (engine E2) over the real objects; reference = flat []byte FIFO.
// Private state of the embedded ring / list (other packages) is read through reflect for the
// canonical state key only.

import (
	"bytes"
	"errors"
	"fmt"
	"io"
	"math"
	"reflect"
	"strings"
	"testing"

	"github.com/panjf2000/gnet/v2/internal/verifmc/seqmc"
	"github.com/panjf2000/gnet/v2/pkg/buffer/ring"
	bsPool "github.com/panjf2000/gnet/v2/pkg/pool/byteslice"
	rbPool "github.com/panjf2000/gnet/v2/pkg/pool/ringbuffer"
)

var errBoom = errors.New("boom")

func ringKey(rb *ring.Buffer) string {
	if rb == nil {
		return "nil"
	}
	v := reflect.ValueOf(rb).Elem()
	return fmt.Sprintf("%d/%d/%d/%v", v.FieldByName("size").Int(), v.FieldByName("r").Int(), v.FieldByName("w").Int(), v.FieldByName("isEmpty").Bool())
}

func listLens(mb *Buffer) []int {
	v := reflect.ValueOf(&mb.listBuffer).Elem()
	var out []int
	for n := v.FieldByName("head"); !n.IsNil(); n = n.Elem().FieldByName("next") {
		out = append(out, n.Elem().FieldByName("buf").Len())
		if len(out) > 100000 {
			panic("cyclic list")
		}
	}
	return out
}

// one queue under test: either an elastic.Buffer or an elastic.RingBuffer
type q struct {
	mb  *Buffer
	rb  *RingBuffer
	ref []byte
}

type c10 struct {
	qs      []*q
	seq     int
	salt    uint64
	full    bool
	maxList int
	maxCap  int
	reduced bool
}

func (m *c10) nextBytes(n int) []byte {
	p := make([]byte, n)
	for i := range p {
		p[i] = seqmc.ByteAt(m.salt, m.seq)
		m.seq++
	}
	return p
}

func (x *q) ring() *ring.Buffer {
	if x.mb != nil {
		return x.mb.ringBuffer.rb
	}
	return x.rb.rb
}

func (m *c10) Key() string {
	var parts []string
	for _, x := range m.qs {
		if x.mb != nil {
			parts = append(parts, fmt.Sprintf("B%d:%s:%v", x.mb.maxStaticBytes, ringKey(x.ring()), listLens(x.mb))+seqmc.Scalars(x.mb)+seqmc.Scalars(x.ring()))
		} else {
			parts = append(parts, "R:"+ringKey(x.ring())+seqmc.Scalars(x.ring()))
		}
	}
	return strings.Join(parts, "|")
}

func (m *c10) Expand() bool {
	for _, x := range m.qs {
		if x.mb != nil && len(listLens(x.mb)) > m.maxList {
			return false
		}
		if r := x.ring(); r != nil && r.Cap() > m.maxCap {
			return false
		}
	}
	return true
}

func uniq(xs []int) []int {
	var out []int
	seen := map[int]bool{}
	for _, x := range xs {
		if x < 0 || seen[x] {
			continue
		}
		seen[x] = true
		out = append(out, x)
	}
	return out
}

func scriptN(kind, l int) int {
	switch kind {
	case 0:
		return 0
	case 1:
		if l < 1 {
			return l
		}
		return 1
	case 2:
		if l < 1 {
			return 0
		}
		return l - 1
	}
	return l
}

func scripts(maxLen, nerr int, contAll bool) [][]int {
	var out [][]int
	var rec func(prefix []int)
	rec = func(prefix []int) {
		for n := 0; n < 4; n++ {
			for e := 0; e < nerr; e++ {
				s := append(append([]int{}, prefix...), n*10+e)
				out = append(out, s)
				if e == 0 && (contAll || n == 3) && len(s) < maxLen {
					rec(s)
				}
			}
		}
	}
	rec(nil)
	return out
}

var (
	rScripts1 = scripts(1, 3, true)
	rScripts2 = scripts(2, 3, true)
	wScripts2 = scripts(2, 2, false)
	wScripts3 = scripts(3, 2, false)
)

// Writev split shapes (segment sizes); -1025 stands for 1025 one-byte segments.
var splits = [][]int{{}, {0}, {1}, {3, 0, 4}, {0, 5}, {1024}, {1023, 2}, {5, 1020, 5}, {-1025}}

func (m *c10) Ops() []seqmc.Op {
	var ops []seqmc.Op
	for qi, x := range m.qs {
		total := len(x.ref)
		ringPart := 0
		if r := x.ring(); r != nil {
			ringPart = r.Buffered()
		}
		avail := 0
		if r := x.ring(); r != nil {
			avail = r.Available()
		}
		sizes := []int{0, 1, 3, 4, 5, 1023, 1024, 1025}
		if m.reduced {
			sizes = []int{0, 1, 5, 1024}
		}
		sizes = uniq(append(sizes, avail, avail+1))
		for _, k := range sizes {
			ops = append(ops, seqmc.Op{N: "Write", A: []int{qi, k}})
		}
		ks := uniq([]int{0, 1, ringPart - 1, ringPart, ringPart + 1, total - 1, total, total + 1})
		for _, k := range ks {
			ops = append(ops, seqmc.Op{N: "Read", A: []int{qi, k}})
			ops = append(ops, seqmc.Op{N: "Discard", A: []int{qi, k}})
		}
		pk := append([]int{-1, math.MaxInt32}, ks...)
		if total <= 48 && !m.reduced {
			for k := 1; k <= total; k++ {
				pk = append(pk, k)
			}
		}
		for _, k := range append([]int{-1}, uniq(pk)...) {
			ops = append(ops, seqmc.Op{N: "Peek", A: []int{qi, k}})
		}
		rs, ws := rScripts1, wScripts2
		if m.full {
			rs, ws = rScripts2, wScripts3
		}
		if m.reduced {
			rs, ws = [][]int{{21}, {30, 11}}, [][]int{{30}, {20}, {1}}
		}
		for _, s := range rs {
			ops = append(ops, seqmc.Op{N: "ReadFrom", A: append([]int{qi}, s...)})
		}
		for _, s := range ws {
			ops = append(ops, seqmc.Op{N: "WriteTo", A: append([]int{qi}, s...)})
		}
		if x.mb != nil {
			for si := range splits {
				if m.reduced && si > 3 {
					break
				}
				ops = append(ops, seqmc.Op{N: "Writev", A: []int{qi, si}})
			}
			ops = append(ops, seqmc.Op{N: "Reset", A: []int{qi, 0}}, seqmc.Op{N: "Reset", A: []int{qi, 4}}, seqmc.Op{N: "Reset", A: []int{qi, 1024}}, seqmc.Op{N: "Release", A: []int{qi}})
		} else {
			ops = append(ops, seqmc.Op{N: "WriteByte", A: []int{qi}}, seqmc.Op{N: "ReadByte", A: []int{qi}}, seqmc.Op{N: "Bytes", A: []int{qi}},
				seqmc.Op{N: "WriteString", A: []int{qi, 3}}, seqmc.Op{N: "Reset", A: []int{qi, 0}}, seqmc.Op{N: "Done", A: []int{qi}})
		}
	}
	return ops
}

type scriptReader struct {
	m      *c10
	script []int
	i      int
	given  []byte
	// a conforming io.Reader that is offered no room returns (0, nil) and keeps its data: the
	// script does not advance.  ReadFrom that keeps offering an empty buffer never makes progress
	// with such a reader; after maxNoRoom consecutive empty offers the reader fails the call and
	// the oracle reports the livelock.
	noRoom  int
	starved bool
}

const maxNoRoom = 8

func (r *scriptReader) Read(p []byte) (int, error) {
	if len(p) == 0 {
		if r.noRoom++; r.noRoom > maxNoRoom {
			r.starved = true
			return 0, errBoom
		}
		return 0, nil
	}
	r.noRoom = 0
	if r.i >= len(r.script) {
		return 0, io.EOF
	}
	a := r.script[r.i]
	r.i++
	n := scriptN(a/10, len(p))
	d := r.m.nextBytes(n)
	copy(p, d)
	r.given = append(r.given, d...)
	switch a % 10 {
	case 1:
		return n, io.EOF
	case 2:
		return n, errBoom
	}
	return n, nil
}

type scriptWriter struct {
	script []int
	i      int
	got    []byte
	failed bool
}

func (w *scriptWriter) Write(p []byte) (int, error) {
	if w.i >= len(w.script) {
		w.got = append(w.got, p...)
		return len(p), nil
	}
	a := w.script[w.i]
	w.i++
	n := scriptN(a/10, len(p))
	w.got = append(w.got, p[:n]...)
	if n < len(p) {
		w.failed = true
	}
	if a%10 == 1 {
		w.failed = true
		return n, errBoom
	}
	return n, nil
}

func diff(got, want []byte) string {
	if len(got) != len(want) {
		return fmt.Sprintf("len %d want %d", len(got), len(want))
	}
	for i := range got {
		if got[i] != want[i] {
			return fmt.Sprintf("first difference at offset %d of %d: got %d want %d", i, len(got), got[i], want[i])
		}
	}
	return "equal"
}

func cat(bs [][]byte) []byte {
	var out []byte
	for _, b := range bs {
		out = append(out, b...)
	}
	return out
}

func (x *q) kind() string {
	if x.mb != nil {
		return "Buffer"
	}
	return "RingBuffer"
}

func (x *q) describe() string {
	if x.mb != nil {
		return fmt.Sprintf("[max=%d ring=%s list=%v ref=%d]", x.mb.maxStaticBytes, ringKey(x.ring()), listLens(x.mb), len(x.ref))
	}
	return fmt.Sprintf("[ring=%s ref=%d]", ringKey(x.ring()), len(x.ref))
}

// content returns everything observable without consuming.
func (x *q) content() ([]byte, error) {
	if x.mb != nil {
		bs, err := x.mb.Peek(-1)
		return cat(bs), err
	}
	h, t := x.rb.Peek(-1)
	return append(append([]byte{}, h...), t...), nil
}

func (m *c10) invariants(op string) (string, string) {
	churnPool(1, 3, 5, 8, 512, 1024, 2048)
	for qi, x := range m.qs {
		var buffered int
		var empty bool
		if x.mb != nil {
			buffered, empty = x.mb.Buffered(), x.mb.IsEmpty()
		} else {
			buffered, empty = x.rb.Buffered(), x.rb.IsEmpty()
		}
		k := x.kind()
		if buffered != len(x.ref) {
			return fmt.Sprintf("after %s: %s#%d Buffered()=%d, reference holds %d %s", op, k, qi, buffered, len(x.ref), x.describe()), k + "." + opName(op) + ":buffered"
		}
		if empty != (len(x.ref) == 0) {
			return fmt.Sprintf("after %s: %s#%d IsEmpty()=%v with %d bytes %s", op, k, qi, empty, len(x.ref), x.describe()), k + "." + opName(op) + ":isempty"
		}
		got, err := x.content()
		if err != nil {
			return fmt.Sprintf("after %s: %s#%d Peek(-1) failed: %v", op, k, qi, err), k + "." + opName(op) + ":peekall"
		}
		if !bytes.Equal(got, x.ref) {
			return fmt.Sprintf("after %s: %s#%d content differs from reference: %s %s", op, k, qi, diff(got, x.ref), x.describe()), k + "." + opName(op) + ":content"
		}
	}
	return "", ""
}

func opName(op string) string {
	for i := 0; i < len(op); i++ {
		if op[i] == '(' {
			return op[:i]
		}
	}
	return op
}

func scriptClass(s []int, r bool) string {
	if len(s) == 0 {
		return "none"
	}
	names := []string{"zero", "one", "short", "full"}
	errs := []string{"nil", "err", "err"}
	if r {
		errs = []string{"nil", "eof", "err"}
	}
	last := s[len(s)-1]
	return names[last/10] + "-" + errs[last%10]
}

func minInt(a, b int) int {
	if a < b {
		return a
	}
	return b
}

func (m *c10) Apply(op seqmc.Op) (string, string) {
	x := m.qs[op.A[0]]
	k := x.kind()
	switch op.N {
	case "Write", "WriteString":
		p := m.nextBytes(op.A[1])
		var n int
		var err error
		switch {
		case x.mb != nil:
			n, err = x.mb.Write(p)
		case op.N == "WriteString":
			n, err = x.rb.WriteString(string(p))
		default:
			n, err = x.rb.Write(p)
		}
		x.ref = append(x.ref, p...)
		if n != len(p) || err != nil {
			return fmt.Sprintf("%s.%s(%d) = %d, %v", k, op.N, len(p), n, err), k + "." + op.N + ":ret"
		}
		for i := range p { // the caller re-uses its slice
			p[i] ^= 0xFF
		}
	case "Writev":
		shape := splits[op.A[1]]
		var bs [][]byte
		if len(shape) == 1 && shape[0] < 0 {
			for i := 0; i < -shape[0]; i++ {
				bs = append(bs, m.nextBytes(1))
			}
		} else {
			for _, l := range shape {
				bs = append(bs, m.nextBytes(l))
			}
		}
		want := cat(bs)
		n, err := x.mb.Writev(bs)
		x.ref = append(x.ref, want...)
		if n != len(want) || err != nil {
			return fmt.Sprintf("Buffer.Writev%v = %d, %v; want %d", shape, n, err, len(want)), "Buffer.Writev:ret"
		}
		for _, b := range bs {
			for i := range b {
				b[i] ^= 0xFF
			}
		}
	case "WriteByte":
		p := m.nextBytes(1)
		if err := x.rb.WriteByte(p[0]); err != nil {
			return fmt.Sprintf("WriteByte: %v", err), "RingBuffer.WriteByte:ret"
		}
		x.ref = append(x.ref, p...)
	case "ReadByte":
		b, err := x.rb.ReadByte()
		if len(x.ref) == 0 {
			if err == nil {
				return "ReadByte on empty buffer returned no error", "RingBuffer.ReadByte:empty"
			}
		} else {
			if err != nil || b != x.ref[0] {
				return fmt.Sprintf("ReadByte = %d, %v; want %d", b, err, x.ref[0]), "RingBuffer.ReadByte:ret"
			}
			x.ref = x.ref[1:]
		}
	case "Bytes":
		if got := x.rb.Bytes(); !bytes.Equal(got, x.ref) {
			return "Bytes(): " + diff(got, x.ref), "RingBuffer.Bytes:content"
		}
	case "Read":
		n0 := op.A[1]
		p := make([]byte, n0)
		var n int
		var err error
		if x.mb != nil {
			n, err = x.mb.Read(p)
		} else {
			n, err = x.rb.Read(p)
		}
		want := minInt(n0, len(x.ref))
		if n != want {
			return fmt.Sprintf("%s.Read(%d) = %d, %v; want %d %s", k, n0, n, err, want, x.describe()), k + ".Read:count"
		}
		if !bytes.Equal(p[:n], x.ref[:n]) {
			return fmt.Sprintf("%s.Read(%d): %s", k, n0, diff(p[:n], x.ref[:n])), k + ".Read:content"
		}
		x.ref = x.ref[n:]
	case "Discard":
		n0 := op.A[1]
		var n int
		if x.mb != nil {
			n, _ = x.mb.Discard(n0)
		} else {
			n, _ = x.rb.Discard(n0)
		}
		want := minInt(n0, len(x.ref))
		if n != want {
			return fmt.Sprintf("%s.Discard(%d) = %d; want %d %s", k, n0, n, want, x.describe()), k + ".Discard:count"
		}
		x.ref = x.ref[n:]
	case "Peek":
		n0 := op.A[1]
		want := len(x.ref)
		if n0 > 0 && n0 != math.MaxInt32 {
			want = n0
		}
		if x.mb != nil {
			before := x.describe()
			bs, err := x.mb.Peek(n0)
			if want > len(x.ref) {
				if err == nil {
					return fmt.Sprintf("Buffer.Peek(%d) with %d bytes buffered returned no error", n0, len(x.ref)), "Buffer.Peek:beyond"
				}
				break
			}
			if err != nil {
				return fmt.Sprintf("Buffer.Peek(%d) with %d bytes buffered failed: %v %s", n0, len(x.ref), err, before), "Buffer.Peek:err"
			}
			if got := cat(bs); !bytes.Equal(got, x.ref[:want]) {
				return fmt.Sprintf("Buffer.Peek(%d): %s %s", n0, diff(got, x.ref[:want]), before), "Buffer.Peek:content"
			}
		} else {
			h, t := x.rb.Peek(n0)
			want = minInt(want, len(x.ref))
			if got := append(append([]byte{}, h...), t...); !bytes.Equal(got, x.ref[:want]) {
				return fmt.Sprintf("RingBuffer.Peek(%d): %s", n0, diff(got, x.ref[:want])), "RingBuffer.Peek:content"
			}
		}
	case "ReadFrom":
		r := &scriptReader{m: m, script: op.A[1:]}
		var n int64
		var err error
		if x.mb != nil {
			n, err = x.mb.ReadFrom(r)
		} else {
			n, err = x.rb.ReadFrom(r)
		}
		x.ref = append(x.ref, r.given...)
		if r.starved {
			return fmt.Sprintf("%s.ReadFrom%v offered the reader an empty buffer %d times in a row: a conforming reader that has data never gets to deliver it", k, op.A[1:], maxNoRoom+1), k + ".ReadFrom:noroom"
		}
		if n != int64(len(r.given)) {
			return fmt.Sprintf("%s.ReadFrom%v = %d, %v but the reader handed out %d bytes", k, op.A[1:], n, err, len(r.given)), k + ".ReadFrom:count"
		}
		if msg, _ := m.invariants(op.String()); msg != "" {
			return msg, k + ".ReadFrom:" + scriptClass(op.A[1:], true)
		}
	case "WriteTo":
		w := &scriptWriter{script: op.A[1:]}
		var n int64
		var err error
		before := x.describe()
		if x.mb != nil {
			n, err = x.mb.WriteTo(w)
		} else {
			n, err = x.rb.WriteTo(w)
		}
		if n != int64(len(w.got)) {
			return fmt.Sprintf("%s.WriteTo%v = %d, %v but the writer accepted %d bytes", k, op.A[1:], n, err, len(w.got)), k + ".WriteTo:count"
		}
		if len(w.got) > len(x.ref) || !bytes.Equal(w.got, x.ref[:len(w.got)]) {
			return fmt.Sprintf("%s.WriteTo%v handed the writer bytes that are not the front of the queue %s", k, op.A[1:], before), k + ".WriteTo:content"
		}
		x.ref = x.ref[len(w.got):]
		if err == nil && !w.failed && len(x.ref) != 0 {
			return fmt.Sprintf("%s.WriteTo with an all-accepting writer returned nil but left %d bytes %s", k, len(x.ref), before), k + ".WriteTo:incomplete"
		}
		if msg, _ := m.invariants(op.String()); msg != "" {
			return msg, k + ".WriteTo:" + scriptClass(op.A[1:minInt(len(op.A), 1+w.i)], false)
		}
	case "Reset":
		if x.mb != nil {
			x.mb.Reset(op.A[1])
			if op.A[1] > 0 && x.mb.maxStaticBytes != op.A[1] {
				return "Reset(max) did not set the static limit", "Buffer.Reset:max"
			}
		} else {
			x.rb.Reset()
		}
		x.ref = nil
	case "Release":
		x.mb.Release()
		x.ref = nil
	case "Done":
		x.rb.Done()
		x.ref = nil
	default:
		panic("unknown op " + op.N)
	}
	return m.invariants(op.String())
}

func drainPool() {
	// best effort: make the ring pool start empty for every instance (deterministic exploration under GOMAXPROCS=1)
	zero := 0
	for i := 0; i < 64 && zero < 2; i++ {
		if rb := rbPool.Get(); rb.Cap() == 0 || rb.Buffered() != 0 {
			zero++
		}
	}
}

func newC10(kind string, max int, full bool, maxList, maxCap int) func() seqmc.Instance {
	return func() seqmc.Instance {
		drainPool()
		m := &c10{salt: seqmc.Salt(), full: full, maxList: maxList, maxCap: maxCap}
		switch kind {
		case "buffer":
			mb, err := New(max)
			if err != nil {
				panic(err)
			}
			m.qs = []*q{{mb: mb}}
		case "ring":
			m.qs = []*q{{rb: &RingBuffer{}}}
		case "pair":
			m.reduced = true
			mb, _ := New(max)
			m.qs = []*q{{mb: mb}, {rb: &RingBuffer{}}}
		}
		return m
	}
}

type scen struct {
	name  string
	kind  string
	max   int
	depth int
}

func TestMC_C10(t *testing.T) {
	thorough := seqmc.Tier() == "thorough"
	if rp := seqmc.ReplayFile(); rp != "" {
		v, err := seqmc.LoadViolation(rp)
		if err != nil {
			t.Fatal(err)
		}
		var kind string
		var max int
		fmt.Sscanf(strings.ReplaceAll(v.Scenario, "/", " "), "%s %d", &kind, &max)
		_, msg, sig, at := seqmc.Replay(newC10(kind, max, true, 1000, 1<<30), v.History)
		if msg != "" {
			fmt.Printf("REPLAY-VIOLATION property=C10 sig=%s step=%d %s\n", sig, at, msg)
			t.Fail()
			return
		}
		fmt.Println("REPLAY-OK property=C10")
		return
	}
	d := 4
	if thorough {
		d = 6
	}
	scens := []scen{{"buffer/1", "buffer", 1, d}, {"buffer/4", "buffer", 4, d}, {"buffer/1024", "buffer", 1024, d}, {"buffer/1025", "buffer", 1025, d},
		{"ring/0", "ring", 0, d + 1}, {"pair/4", "pair", 4, d}, {"pair/1024", "pair", 1024, d}}
	if thorough {
		scens = append(scens, scen{"buffer/2048", "buffer", 2048, d}, scen{"buffer/5000", "buffer", 5000, d})
	}
	si, sn := seqmc.Shard()
	var res seqmc.Result
	res.Property = "C10"
	for i, s := range scens {
		if i%sn != si {
			continue
		}
		st, vs := seqmc.Run(seqmc.Config{Property: "C10", Scenario: s.name, New: newC10(s.kind, s.max, thorough, 3, 4096), Depth: s.depth, Deadline: seqmc.Deadline(),
			Outcome: func(in seqmc.Instance) string {
				m := in.(*c10)
				x := m.qs[0]
				if x.mb != nil {
					return fmt.Sprintf("%v/%v", x.ring() == nil, len(listLens(x.mb)))
				}
				return fmt.Sprintf("%v", x.ring() == nil)
			}})
		res.Add(st, vs)
	}
	res.Exhaustive = len(res.Caps) == 0
	res.Bounds = []string{fmt.Sprintf("all operation sequences of length <= %d per scenario (ring-only: %d); states with > 3 list nodes or ring capacity > 4096 are checked but not expanded", d, d+1),
		"static limits {1,4,1024,1025} (+2048,5000 thorough); Peek(n) for every n in 1..Buffered when Buffered <= 48; Writev shapes incl. empty segments and 1025 one-byte segments",
		"pair scenarios: one elastic.Buffer and one elastic.RingBuffer sharing the ring pool (reduced alphabet)"}
	res.Samples = []string{"buffer/4: Write(5); Write(3); Discard(5); WriteTo[30]", "buffer/1024: Writev[1023,2]; Peek(1024); Read(1023); ReadFrom[21]", "pair/4: Write(#0,1024); Write(#1,5); Release(#0); Write(#1,1024)"}
	if err := res.Write(); err != nil {
		t.Fatal(err)
	}
}

// churnPool plays an unrelated user of the shared byte-slice pool: whatever memory the buffer
// under test still references must not be handed out by the pool.
func churnPool(sizes ...int) {
	var held [][]byte
	for _, k := range sizes {
		for r := 0; k > 0 && r < 3; r++ { // several at once: sync.Pool returns its private slot first
			b := bsPool.Get(k)
			full := b[:cap(b)]
			for i := range full {
				full[i] = 0xA5
			}
			held = append(held, b)
		}
	}
	for _, b := range held {
		bsPool.Put(b)
	}
}
