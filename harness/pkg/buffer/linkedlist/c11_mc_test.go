package linkedlist

// C11 — linkedlist.Buffer behaves as a FIFO byte queue of copied segments.
// Explicit-state search (engine E2) over the real Buffer with a [][]byte reference.

import (
	"bytes"
	"errors"
	"fmt"
	"io"
	"math"
	"strings"
	"testing"

	"github.com/panjf2000/gnet/v2/internal/verifmc/seqmc"
	bsPool "github.com/panjf2000/gnet/v2/pkg/pool/byteslice"
)

var errBoom = errors.New("boom")

type c11 struct {
	b       *Buffer
	ref     [][]byte
	seq     int
	salt    uint64
	maxSegs int
	full    bool
}

func (m *c11) nextBytes(n int) []byte {
	p := make([]byte, n)
	for i := range p {
		p[i] = seqmc.ByteAt(m.salt, m.seq)
		m.seq++
	}
	return p
}

func (m *c11) nodeLens() []int {
	var out []int
	for it := m.b.head; it != nil; it = it.next {
		out = append(out, len(it.buf))
		if len(out) > 10000 {
			panic("linked list is cyclic")
		}
	}
	return out
}

func (m *c11) Key() string {
	ls := m.nodeLens()
	s := make([]string, len(ls))
	for i, l := range ls {
		s[i] = fmt.Sprint(l)
	}
	return strings.Join(s, ",") + seqmc.Scalars(m.b)
}

func (m *c11) Expand() bool { return len(m.nodeLens()) <= m.maxSegs }

func (m *c11) flat() []byte {
	var out []byte
	for _, s := range m.ref {
		out = append(out, s...)
	}
	return out
}

func uniq(xs []int) []int {
	var out []int
	seen := map[int]bool{}
	for _, x := range xs {
		if x < 0 || seen[x] {
			continue
		}
		seen[x] = true
		out = append(out, x)
	}
	return out
}

func scriptN(kind, l int) int {
	switch kind {
	case 0:
		return 0
	case 1:
		if l < 1 {
			return l
		}
		return 1
	case 2:
		if l < 1 {
			return 0
		}
		return l - 1
	}
	return l
}

func readerScripts(maxLen int) [][]int {
	var out [][]int
	var rec func(prefix []int)
	rec = func(prefix []int) {
		for n := 0; n < 4; n++ {
			for e := 0; e < 3; e++ {
				s := append(append([]int{}, prefix...), n*10+e)
				out = append(out, s)
				if e == 0 && len(s) < maxLen {
					rec(s)
				}
			}
		}
	}
	rec(nil)
	return out
}

func writerScripts(maxLen int) [][]int {
	var out [][]int
	var rec func(prefix []int)
	rec = func(prefix []int) {
		for n := 0; n < 4; n++ {
			for e := 0; e < 2; e++ {
				s := append(append([]int{}, prefix...), n*10+e)
				out = append(out, s)
				if e == 0 && n == 3 && len(s) < maxLen {
					rec(s)
				}
			}
		}
	}
	rec(nil)
	return out
}

var (
	rScripts2 = readerScripts(2)
	rScripts3 = readerScripts(3)
	wScripts2 = writerScripts(2)
	wScripts3 = writerScripts(3)
)

func (m *c11) Ops() []seqmc.Op {
	total := len(m.flat())
	head := 0
	if len(m.ref) > 0 {
		head = len(m.ref[0])
	}
	var ops []seqmc.Op
	sizes := []int{0, 1, 2, 3, 5, 7}
	for _, n := range []string{"PushBack", "PushFront", "Append"} {
		for _, k := range sizes {
			ops = append(ops, seqmc.Op{N: n, A: []int{k}})
		}
	}
	ops = append(ops, seqmc.Op{N: "Pop"}, seqmc.Op{N: "Reset"})
	ks := uniq([]int{0, 1, head - 1, head, head + 1, total - 1, total, total + 1})
	for _, k := range ks {
		ops = append(ops, seqmc.Op{N: "Read", A: []int{k}})
		ops = append(ops, seqmc.Op{N: "Discard", A: []int{k}})
	}
	for _, k := range append([]int{-1, math.MaxInt32}, ks...) {
		ops = append(ops, seqmc.Op{N: "Peek", A: []int{k}})
		for _, e := range []int{0, 1, 2, 3} { // shapes of the extra segments: none / [3] / [2,empty,1] / [2,3]
			ops = append(ops, seqmc.Op{N: "PeekWithBytes", A: []int{k, e}})
		}
	}
	for _, k := range []int{3, 4} { // a limit that falls inside the second extra segment of shape [2,3]
		dup := false
		for _, x := range ks {
			dup = dup || x == k
		}
		if !dup {
			ops = append(ops, seqmc.Op{N: "PeekWithBytes", A: []int{k, 3}})
		}
	}
	rs, ws := rScripts2, wScripts2
	if m.full {
		rs, ws = rScripts3, wScripts3
	}
	for _, s := range rs {
		ops = append(ops, seqmc.Op{N: "ReadFrom", A: s})
	}
	for _, s := range ws {
		ops = append(ops, seqmc.Op{N: "WriteTo", A: s})
	}
	return ops
}

type scriptReader struct {
	m      *c11
	script []int
	i      int
	given  [][]byte
	// a conforming io.Reader that is offered no room returns (0, nil) and keeps its data: the
	// script does not advance.  ReadFrom that keeps offering an empty buffer never makes progress
	// with such a reader; after maxNoRoom consecutive empty offers the reader fails the call and
	// the oracle reports the livelock.
	noRoom  int
	starved bool
}

const maxNoRoom = 8

func (r *scriptReader) Read(p []byte) (int, error) {
	if len(p) == 0 {
		if r.noRoom++; r.noRoom > maxNoRoom {
			r.starved = true
			return 0, errBoom
		}
		return 0, nil
	}
	r.noRoom = 0
	if r.i >= len(r.script) {
		return 0, io.EOF
	}
	a := r.script[r.i]
	r.i++
	n := scriptN(a/10, len(p))
	d := r.m.nextBytes(n)
	copy(p, d)
	r.given = append(r.given, d)
	switch a % 10 {
	case 1:
		return n, io.EOF
	case 2:
		return n, errBoom
	}
	return n, nil
}

type scriptWriter struct {
	script []int
	i      int
	got    []byte
}

func (w *scriptWriter) Write(p []byte) (int, error) {
	if w.i >= len(w.script) {
		w.got = append(w.got, p...)
		return len(p), nil
	}
	a := w.script[w.i]
	w.i++
	n := scriptN(a/10, len(p))
	w.got = append(w.got, p[:n]...)
	if a%10 == 1 {
		return n, errBoom
	}
	return n, nil
}

func diff(got, want []byte) string {
	if len(got) != len(want) {
		return fmt.Sprintf("len %d want %d", len(got), len(want))
	}
	for i := range got {
		if got[i] != want[i] {
			return fmt.Sprintf("first difference at offset %d of %d: got %d want %d", i, len(got), got[i], want[i])
		}
	}
	return "equal"
}

func cat(bs [][]byte) []byte {
	var out []byte
	for _, b := range bs {
		out = append(out, b...)
	}
	return out
}

// dropFront removes n bytes from the front of the reference.
func (m *c11) dropFront(n int) {
	for n > 0 && len(m.ref) > 0 {
		if n < len(m.ref[0]) {
			m.ref[0] = m.ref[0][n:]
			return
		}
		n -= len(m.ref[0])
		m.ref = m.ref[1:]
	}
}

func (m *c11) invariants(op string) (string, string) {
	churnPool(1, 2, 3, 5, 7, 8, 500, 512)
	flat := m.flat()
	b := m.b
	if b.Buffered() != len(flat) {
		return fmt.Sprintf("after %s: Buffered()=%d, reference holds %d bytes (nodes %v)", op, b.Buffered(), len(flat), m.nodeLens()), opName(op) + ":buffered"
	}
	if b.IsEmpty() != (len(flat) == 0) {
		return fmt.Sprintf("after %s: IsEmpty()=%v with Buffered()=%d (nodes %v)", op, b.IsEmpty(), b.Buffered(), m.nodeLens()), opName(op) + ":isempty"
	}
	if b.Len() != len(m.nodeLens()) || b.Len() != len(m.ref) {
		return fmt.Sprintf("after %s: Len()=%d, list has %d nodes, reference %d segments", op, b.Len(), len(m.nodeLens()), len(m.ref)), opName(op) + ":len"
	}
	bs, err := b.Peek(-1)
	if err != nil {
		return fmt.Sprintf("after %s: Peek(-1) failed: %v", op, err), opName(op) + ":peekall"
	}
	if got := cat(bs); !bytes.Equal(got, flat) {
		return fmt.Sprintf("after %s: content differs from reference: %s (nodes %v)", op, diff(got, flat), m.nodeLens()), opName(op) + ":content"
	}
	return "", ""
}

func scriptClass(s []int, r bool) string {
	if len(s) == 0 {
		return "none"
	}
	names := []string{"zero", "one", "short", "full"}
	errs := []string{"nil", "err", "err"}
	if r {
		errs = []string{"nil", "eof", "err"}
	}
	last := s[len(s)-1]
	return names[last/10] + "-" + errs[last%10]
}

func (m *c11) Apply(op seqmc.Op) (string, string) {
	b := m.b
	switch op.N {
	case "PushBack", "PushFront":
		p := m.nextBytes(op.A[0])
		keep := append([]byte{}, p...)
		if op.N == "PushBack" {
			b.PushBack(p)
			if len(p) > 0 {
				m.ref = append(m.ref, keep)
			}
		} else {
			b.PushFront(p)
			if len(p) > 0 {
				m.ref = append([][]byte{keep}, m.ref...)
			}
		}
		for i := range p { // the caller re-uses its slice: must not be visible (copy semantics)
			p[i] ^= 0xFF
		}
	case "Append":
		p := m.nextBytes(op.A[0])
		b.Append(p)
		if len(p) > 0 {
			m.ref = append(m.ref, p)
		}
	case "Pop":
		got := b.Pop()
		if len(m.ref) == 0 {
			if got != nil {
				return fmt.Sprintf("Pop on empty list returned %d bytes", len(got)), "Pop:empty"
			}
		} else {
			if !bytes.Equal(got, m.ref[0]) {
				return "Pop: " + diff(got, m.ref[0]), "Pop:content"
			}
			m.ref = m.ref[1:]
		}
	case "Reset":
		b.Reset()
		m.ref = nil
	case "Read":
		k := op.A[0]
		p := make([]byte, k)
		n, err := b.Read(p)
		flat := m.flat()
		want := k
		if len(flat) < want {
			want = len(flat)
		}
		if n != want {
			return fmt.Sprintf("Read(%d) = %d, %v; want %d", k, n, err, want), "Read:count"
		}
		if !bytes.Equal(p[:n], flat[:n]) {
			return fmt.Sprintf("Read(%d): %s", k, diff(p[:n], flat[:n])), "Read:content"
		}
		if n > 0 && err != nil {
			return fmt.Sprintf("Read(%d) returned %d bytes and error %v", k, n, err), "Read:err"
		}
		m.dropFront(n)
	case "Discard":
		k := op.A[0]
		n, err := b.Discard(k)
		flat := m.flat()
		want := k
		if len(flat) < want {
			want = len(flat)
		}
		if n != want || err != nil {
			return fmt.Sprintf("Discard(%d) = %d, %v; want %d", k, n, err, want), "Discard:count"
		}
		m.dropFront(n)
	case "Peek", "PeekWithBytes":
		k := op.A[0]
		var extra [][]byte
		if op.N == "PeekWithBytes" {
			switch op.A[1] {
			case 1:
				extra = [][]byte{{201, 202, 203}}
			case 2:
				extra = [][]byte{{201, 202}, {}, {203}}
			case 3:
				extra = [][]byte{{201, 202}, {203, 204, 205}}
			}
		}
		var bs [][]byte
		var err error
		if op.N == "Peek" {
			bs, err = b.Peek(k)
		} else {
			bs, err = b.PeekWithBytes(k, extra...)
		}
		all := append(cat(extra), m.flat()...)
		want := len(all)
		if k > 0 && k != math.MaxInt32 {
			if k > len(all) {
				if err == nil {
					return fmt.Sprintf("%s(%d) with only %d bytes available returned no error", op.N, k, len(all)), op.N + ":short"
				}
				break
			}
			want = k
		}
		if err != nil {
			if op.N == "PeekWithBytes" && k > len(m.flat()) {
				break // n beyond the list part alone: either answer is accepted here (C10 decides it for elastic.Buffer)
			}
			return fmt.Sprintf("%s(%d) failed with %d bytes available: %v", op.N, k, len(all), err), op.N + ":err"
		}
		if got := cat(bs); !bytes.Equal(got, all[:want]) {
			return fmt.Sprintf("%s(%d): %s", op.N, k, diff(got, all[:want])), op.N + ":content"
		}
	case "ReadFrom":
		r := &scriptReader{m: m, script: op.A}
		nodesBefore := len(m.nodeLens())
		n, err := b.ReadFrom(r)
		if r.starved {
			return fmt.Sprintf("ReadFrom%v offered the reader an empty buffer %d times in a row: a conforming reader that has data never gets to deliver it", op.A, maxNoRoom+1), "ReadFrom:noroom"
		}
		given := cat(r.given)
		if n != int64(len(given)) {
			return fmt.Sprintf("ReadFrom%v = %d, %v but the reader handed out %d bytes", op.A, n, err, len(given)), "ReadFrom:count"
		}
		// adopt the implementation's segmentation of the new bytes (unspecified), then compare content
		ls := m.nodeLens()
		rest := given
		for i := nodesBefore; i < len(ls) && len(rest) >= ls[i]; i++ {
			m.ref = append(m.ref, rest[:ls[i]])
			rest = rest[ls[i]:]
		}
		if len(rest) > 0 {
			if len(m.ref) == 0 {
				m.ref = append(m.ref, rest)
			} else {
				m.ref[len(m.ref)-1] = append(append([]byte{}, m.ref[len(m.ref)-1]...), rest...)
			}
		}
		if msg, _ := m.invariants(op.String()); msg != "" {
			return msg, "ReadFrom:" + scriptClass(op.A, true)
		}
	case "WriteTo":
		w := &scriptWriter{script: op.A}
		n, err := b.WriteTo(w)
		flat := m.flat()
		if n != int64(len(w.got)) {
			return fmt.Sprintf("WriteTo%v = %d, %v but the writer accepted %d bytes", op.A, n, err, len(w.got)), "WriteTo:count"
		}
		if len(w.got) > len(flat) || !bytes.Equal(w.got, flat[:len(w.got)]) {
			return fmt.Sprintf("WriteTo%v handed the writer bytes that are not the front of the queue", op.A), "WriteTo:content"
		}
		m.dropFront(len(w.got))
		if msg, _ := m.invariants(op.String()); msg != "" {
			return msg, "WriteTo:" + scriptClass(op.A[:minInt(len(op.A), w.i)], false)
		}
	default:
		panic("unknown op " + op.N)
	}
	return m.invariants(op.String())
}

func minInt(a, b int) int {
	if a < b {
		return a
	}
	return b
}

func newC11(maxSegs int, full bool) func() seqmc.Instance {
	return func() seqmc.Instance {
		return &c11{b: &Buffer{}, maxSegs: maxSegs, full: full, salt: seqmc.Salt()}
	}
}

func TestMC_C11(t *testing.T) {
	if rp := seqmc.ReplayFile(); rp != "" {
		v, err := seqmc.LoadViolation(rp)
		if err != nil {
			t.Fatal(err)
		}
		_, msg, sig, at := seqmc.Replay(newC11(100, true), v.History)
		if msg != "" {
			fmt.Printf("REPLAY-VIOLATION property=C11 sig=%s step=%d %s\n", sig, at, msg)
			t.Fail()
			return
		}
		fmt.Println("REPLAY-OK property=C11")
		return
	}
	var res seqmc.Result
	res.Property = "C11"
	thorough := seqmc.Tier() == "thorough"
	depth, segs := 5, 4
	if thorough {
		depth, segs = 7, 5
	}
	st, vs := seqmc.Run(seqmc.Config{Property: "C11", Scenario: "linkedlist", New: newC11(segs, thorough), Depth: depth, Deadline: seqmc.Deadline(),
		Outcome: func(in seqmc.Instance) string { m := in.(*c11); return fmt.Sprintf("%d/%v", m.b.Len(), m.b.IsEmpty()) }})
	res.Add(st, vs)
	res.Exhaustive = len(res.Caps) == 0
	res.Bounds = []string{fmt.Sprintf("all operation sequences of length <= %d (states with more than %d segments are checked but not expanded)", depth, segs),
		"segment sizes {0,1,2,3,5,7}; read/discard/peek sizes relative to head segment and total; reader scripts over 512-byte buffers, writer scripts per segment"}
	res.Samples = []string{"PushBack(3); PushFront(2); Read(4); ReadFrom[31]; WriteTo[20 1]; Pop", "Append(5); Discard(2); PeekWithBytes(4,[2,0,1]); PushBack(7); WriteTo[30 11]"}
	if err := res.Write(); err != nil {
		t.Fatal(err)
	}
}

// opName strips the arguments from a rendered operation (signatures must not depend on sizes).
func opName(op string) string {
	for i := 0; i < len(op); i++ {
		if op[i] == '(' {
			return op[:i]
		}
	}
	return op
}

// churnPool plays an unrelated user of the shared byte-slice pool: whatever memory the buffer
// under test still references must not be handed out by the pool.
func churnPool(sizes ...int) {
	var held [][]byte
	for _, k := range sizes {
		for r := 0; k > 0 && r < 3; r++ { // several at once: sync.Pool returns its private slot first
			b := bsPool.Get(k)
			full := b[:cap(b)]
			for i := range full {
				full[i] = 0xA5
			}
			held = append(held, b)
		}
	}
	for _, b := range held {
		bsPool.Put(b)
	}
}
