package socket

// C17 (conversion part) — socket addresses survive net.Addr -> sockaddr -> net.Addr
// (engine E3: bounded-exhaustive enumeration of IPs x all ports x zones x unix names x networks).

import (
	"fmt"
	"net"
	"strings"
	"testing"

	"golang.org/x/sys/unix"

	"github.com/panjf2000/gnet/v2/internal/verifmc/seqmc"
	bsPool "github.com/panjf2000/gnet/v2/pkg/pool/byteslice"
)

type c17viol struct{ sig, msg string }

func c17IPs() []net.IP {
	ips := []net.IP{nil, net.IPv4(127, 0, 0, 1).To4(), net.IPv4(0, 0, 0, 0).To4(), net.IPv4(255, 255, 255, 255).To4(), net.IPv4(192, 0, 2, 2),
		net.ParseIP("::"), net.ParseIP("::1"), net.ParseIP("fe80::fc:ff:fe00:1"), net.ParseIP("2001:db8::ff00:42:8329"), net.ParseIP("::ffff:1.2.3.4"), net.ParseIP("ff02::3")}
	return ips
}

func badIPs() []net.IP {
	return []net.IP{{}, {1, 2, 3}, {1, 2, 3, 4, 5}, make(net.IP, 15), make(net.IP, 17)}
}

func sameIP(a, b net.IP) bool {
	if len(a) == 0 {
		return b.IsUnspecified() || len(b) == 0
	}
	return a.Equal(b)
}

func c17Convert(kind string, ip net.IP, port int, zone string) (back net.Addr, sa unix.Sockaddr, pmsg string) {
	defer func() {
		if r := recover(); r != nil {
			pmsg = fmt.Sprint(r)
		}
	}()
	var a net.Addr
	switch kind {
	case "tcp":
		a = &net.TCPAddr{IP: ip, Port: port, Zone: zone}
	case "udp":
		a = &net.UDPAddr{IP: ip, Port: port, Zone: zone}
	case "ip":
		a = &net.IPAddr{IP: ip, Zone: zone}
	}
	sa = NetAddrToSockaddr(a)
	if sa == nil {
		return nil, nil, ""
	}
	if kind == "udp" {
		back = SockaddrToUDPAddr(sa)
	} else {
		back = SockaddrToTCPOrUnixAddr(sa)
	}
	return
}

func zoneIndex(z string) int { return ip6ZoneToInt(z) }

func c17CheckIP(kind string, ip net.IP, port int, zone string) *c17viol {
	back, sa, pmsg := c17Convert(kind, ip, port, zone)
	desc := fmt.Sprintf("%s{IP:%v Port:%d Zone:%q}", kind, ip, port, zone)
	if pmsg != "" {
		return &c17viol{"conv:panic", "conversion of " + desc + " panicked: " + pmsg}
	}
	if sa == nil || back == nil {
		return &c17viol{"conv:nil", "conversion of the valid address " + desc + " yields nil"}
	}
	// an IPv4 address (in its 4-byte or its 16-byte spelling) without zone is an AF_INET address: as
	// a v4-mapped AF_INET6 address the kernel refuses it on an IPv4 socket (EAFNOSUPPORT)
	if ip.To4() != nil && zone == "" {
		if _, ok := sa.(*unix.SockaddrInet4); !ok {
			return &c17viol{"conv:family", fmt.Sprintf("the IPv4 address %s (IP of %d bytes) converts to %T, not to an AF_INET socket address", desc, len(ip), sa)}
		}
	}
	var bip net.IP
	var bport int
	var bzone string
	switch b := back.(type) {
	case *net.TCPAddr:
		bip, bport, bzone = b.IP, b.Port, b.Zone
	case *net.UDPAddr:
		bip, bport, bzone = b.IP, b.Port, b.Zone
	default:
		return &c17viol{"conv:type", fmt.Sprintf("%s converts back to %T", desc, back)}
	}
	if !sameIP(ip, bip) {
		return &c17viol{"conv:ip", fmt.Sprintf("%s converts back to IP %v", desc, bip)}
	}
	if kind != "ip" && bport != port {
		return &c17viol{"conv:port", fmt.Sprintf("%s converts back to port %d", desc, bport)}
	}
	// zones are compared by the interface index they denote (a name and its index are the same zone)
	if zoneIndex(zone) != zoneIndex(bzone) {
		return &c17viol{"conv:zone", fmt.Sprintf("%s converts back to zone %q (index %d, want %d)", desc, bzone, zoneIndex(bzone), zoneIndex(zone))}
	}
	if zone != "" && zoneIndex(zone) != 0 && bzone == "" {
		return &c17viol{"conv:zone", fmt.Sprintf("%s lost its zone", desc)}
	}
	if strings.ContainsAny(bzone, "\x00") {
		return &c17viol{"conv:zonebytes", fmt.Sprintf("%s converts back to zone %q containing a NUL byte", desc, bzone)}
	}
	return nil
}

func TestMC_C17conv(t *testing.T) {
	thorough := seqmc.Tier() == "thorough"
	var res seqmc.Result
	res.Property = "C17"
	viol := map[string]c17viol{}
	rec := func(v *c17viol) {
		if v != nil {
			if _, ok := viol[v.sig]; !ok {
				viol[v.sig] = *v
			}
		}
	}
	var total int64
	zones := []string{"", "lo", "eth0", "1", "4", "77", "300", "65535", "16777214"}
	portStep := 1
	for _, kind := range []string{"tcp", "udp", "ip"} {
		for _, ip := range c17IPs() {
			for _, zone := range zones {
				if zone != "" && ip != nil && ip.To4() != nil && len(ip) == 4 {
					// an IPv4 address with a zone is not a meaningful input
					continue
				}
				if kind == "ip" {
					rec(c17CheckIP(kind, ip, 0, zone))
					total++
					continue
				}
				if zone != "" {
					// zoned addresses cost netlink lookups per conversion: boundary ports only
					for _, port := range []int{0, 1, 80, 65535} {
						rec(c17CheckIP(kind, ip, port, zone))
						total++
					}
					continue
				}
				for port := 0; port < 65536; port += portStep {
					rec(c17CheckIP(kind, ip, port, zone))
					total++
				}
			}
		}
		// invalid IP lengths: nil result, no panic
		for _, ip := range badIPs()[1:] {
			for _, zone := range []string{"", "eth0"} {
				back, sa, pmsg := c17Convert(kind, ip, 80, zone)
				total++
				if pmsg != "" {
					rec(&c17viol{"conv:panic", fmt.Sprintf("conversion of an IP of length %d panicked: %s", len(ip), pmsg)})
				} else if sa != nil || back != nil {
					rec(&c17viol{"conv:invalidlen", fmt.Sprintf("%s address with an IP of length %d (zone %q) converts to %v instead of nil", kind, len(ip), zone, sa)})
				}
			}
		}
	}
	// unix names and networks
	long107, long108 := "/"+strings.Repeat("x", 106), "/"+strings.Repeat("x", 107)
	for _, name := range []string{"", "/tmp/gnet.sock", "rel.sock", "@abstract", long107, long108} {
		for _, nw := range []string{"unix", "unixgram", "unixpacket", "tcp", "", "UNIX"} {
			func() {
				defer func() {
					if r := recover(); r != nil {
						rec(&c17viol{"conv:panic", fmt.Sprintf("conversion of unix address %q/%q panicked: %v", nw, name, r)})
					}
				}()
				total++
				sa := NetAddrToSockaddr(&net.UnixAddr{Name: name, Net: nw})
				valid := nw == "unix" || nw == "unixgram" || nw == "unixpacket"
				if !valid {
					if sa != nil {
						rec(&c17viol{"conv:unixnet", fmt.Sprintf("unix address with unsupported network %q converts to %v instead of nil", nw, sa)})
					}
					return
				}
				if sa == nil {
					rec(&c17viol{"conv:nil", fmt.Sprintf("unix address %q/%q converts to nil", nw, name)})
					return
				}
				back, ok := SockaddrToTCPOrUnixAddr(sa).(*net.UnixAddr)
				if !ok || back.Name != name {
					rec(&c17viol{"conv:unixname", fmt.Sprintf("unix address %q converts back to %v", name, back)})
				}
				if SockaddrToUDPAddr(sa) != nil {
					rec(&c17viol{"conv:unixudp", "a unix sockaddr converts to a UDP address"})
				}
			}()
		}
	}
	// unsupported net.Addr implementations
	total++
	if sa := NetAddrToSockaddr(fakeAddr{}); sa != nil {
		rec(&c17viol{"conv:foreign", "an unknown net.Addr implementation converts to a sockaddr"})
	}
	// zone index -> string -> index for every index in a range
	maxIdx := 20000
	if thorough {
		maxIdx = 1 << 18
	}
	for idx := 0; idx <= maxIdx; idx++ {
		total++
		s := ip6ZoneToString(uint32(idx))
		if idx%7 == 0 || idx < 400 {
			// an unrelated user of the shared byte-slice pool: the zone string handed out above must
			// not be memory that has been given back to the pool
			var held [][]byte
			for _, k := range []int{len(s), 8, 16, 32} {
				for r := 0; k > 0 && r < 3; r++ {
					b := bsPool.Get(k)
					for i := range b[:cap(b)] {
						b[:cap(b)][i] = 'x'
					}
					held = append(held, b)
				}
			}
			for _, b := range held {
				bsPool.Put(b)
			}
		}
		if got := ip6ZoneToInt(s); got != idx {
			rec(&c17viol{"zone:roundtrip", fmt.Sprintf("zone index %d becomes %q which denotes index %d", idx, s, got)})
		}
		if idx == 0 && s != "" {
			rec(&c17viol{"zone:zero", fmt.Sprintf("zone index 0 becomes %q", s)})
		}
	}
	// ... and the last indexes below 0xFFFFFF: gnet's dtoi, like package net's own zone parser,
	// rejects decimal zones >= 0xFFFFFF (they then denote an interface name, index 0), so that is
	// where the domain of numeric zones ends for package net and for this check alike
	for idx := 0xFFFFFF - 64; idx < 0xFFFFFF; idx++ {
		total++
		if got := ip6ZoneToInt(ip6ZoneToString(uint32(idx))); got != idx {
			rec(&c17viol{"zone:roundtrip", fmt.Sprintf("zone index %d becomes %q which denotes index %d", idx, ip6ZoneToString(uint32(idx)), got)})
		}
	}
	res.Evaluations = total
	res.Distinct = total
	res.Exhaustive = true
	res.Bounds = []string{fmt.Sprintf("{tcp,udp,ip} x %d IPs x (all 65536 ports without zone; ports {0,1,80,65535} with zones %v); invalid IP lengths 3,5,15,17; unix names x networks; zone index round trip for every index 0..%d and 0xFFFFFF-64..0xFFFFFE (numeric zones >= 0xFFFFFF are outside package net's zone grammar)", len(c17IPs()), zones, maxIdx)}
	res.Samples = []string{"tcp{IP:fe80::fc:ff:fe00:1 Port:65535 Zone:\"eth0\"}", "udp{IP:<nil> Port:0 Zone:\"77\"}", "unix{Name:\"@abstract\" Net:\"unixgram\"}", "zone index 77"}
	if rp := seqmc.ReplayFile(); rp != "" {
		v, _ := seqmc.LoadViolation(rp)
		if x, ok := viol[v.Sig]; ok {
			fmt.Printf("REPLAY-VIOLATION property=C17 sig=%s %s\n", x.sig, x.msg)
			t.Fail()
			return
		}
		fmt.Println("REPLAY-OK property=C17")
		return
	}
	for _, v := range viol {
		res.Violations = append(res.Violations, seqmc.Violation{Property: "C17", Scenario: "conversion", Sig: v.sig, Msg: v.msg, History: []seqmc.Op{{N: v.sig}}, Replays: 5})
	}
	if err := res.Write(); err != nil {
		t.Fatal(err)
	}
}

type fakeAddr struct{}

func (fakeAddr) Network() string { return "fake" }
func (fakeAddr) String() string  { return "fake" }
