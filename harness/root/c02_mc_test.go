//go:build verifmc

package gnet

// C02 — outbound stream integrity and ordering under back-pressure.

import (
	"bytes"
	"fmt"
	"testing"

	"golang.org/x/sys/unix"

	"github.com/panjf2000/gnet/v2/internal/verifmc/mcsys"
	"github.com/panjf2000/gnet/v2/internal/verifmc/sched"
	"github.com/panjf2000/gnet/v2/internal/verifmc/seqmc"
)

func payload(j, n int) []byte {
	b := make([]byte, n)
	for i := range b {
		b[i] = byte((j*37 + i*3 + 1) % 251)
	}
	return b
}

type outOp struct {
	kind  string // write, writev, writev1025, readfrom+flush, asyncwrite, asyncwritev, flush
	sizes []int
}

type outCfg struct {
	name    string
	mode    string
	wcap    int
	inOpen  []outOp // operations performed inside OnOpen
	reply   int     // size of the OnOpen reply (0 = none)
	inTraf  []outOp // operations performed inside the first OnTraffic
	user    []outOp // asynchronous operations issued by one user goroutine
	stall   bool    // the peer does not read until the system is quiescent
	sndbuf  int
	deviate bool
	heavy   bool
	tcp     bool // loopback TCP instead of a unix socket (EPOLLOUT edges only after the socket had been full)
	chunk   int  // EdgeTriggeredIOChunk (0 = default)
}

type outState struct {
	nextPayload int
	cbSeq       [][]byte // payloads accepted by in-callback operations, in program order
	userSeq     [][]byte // payloads accepted by asynchronous operations of the user goroutine, in issue order
	asyncCbs    int
	asyncWant   int
	asyncErrs   []error
	done        bool
}

func fwWrittenBytes(fd int) int {
	n := 0
	for _, e := range mcsys.L.Events {
		if e.Who == "fw" && e.Fd == fd && (e.Op == "write" || e.Op == "writev") && e.N > 0 {
			n += e.N
		}
	}
	return n
}

func total(seqs ...[][]byte) int {
	n := 0
	for _, s := range seqs {
		for _, p := range s {
			n += len(p)
		}
	}
	return n
}

// outAccounting: OutboundBuffered == accepted so far - bytes already handed to the kernel.
func (w *world) outAccounting(ci *connInfo, st *outState, where string) {
	accepted := total(st.cbSeq)
	if len(st.userSeq) > 0 {
		return // asynchronous writes take effect on the loop at a time the callback cannot know
	}
	if got, want := ci.c.OutboundBuffered(), accepted-fwWrittenBytes(ci.fd); got != want {
		w.violate("out:accounting", "connection #%d %s: OutboundBuffered()=%d, but %d bytes were accepted and %d handed to the kernel", ci.id, where, got, accepted, fwWrittenBytes(ci.fd))
	}
}

func (w *world) runOutOps(ci *connInfo, st *outState, ops []outOp, seq *[][]byte, where string) {
	c := ci.c
	for _, op := range ops {
		var ps [][]byte
		for _, s := range op.sizes {
			ps = append(ps, payload(st.nextPayload, s))
			st.nextPayload++
		}
		accept := func(n int, err error, bs ...[]byte) {
			want := 0
			for _, b := range bs {
				want += len(b)
			}
			if err == nil {
				if n != want {
					w.violate("out:count", "%s %s: accepted %d of %d bytes without error", where, op.kind, n, want)
				}
				for _, b := range bs {
					if len(b) > 0 {
						*seq = append(*seq, b)
					}
				}
			}
		}
		switch op.kind {
		case "write":
			for _, p := range ps {
				cp := append([]byte{}, p...)
				n, err := c.Write(cp)
				accept(n, err, p)
				for i := range cp {
					cp[i] = 0xEE // the caller re-uses its buffer after Write returned
				}
			}
		case "writev":
			cps := make([][]byte, len(ps))
			for i, p := range ps {
				cps[i] = append([]byte{}, p...)
			}
			n, err := c.Writev(cps)
			accept(n, err, ps...)
			for _, cp := range cps {
				for i := range cp {
					cp[i] = 0xEE
				}
			}
		case "writev1025":
			p := payload(st.nextPayload, 1025)
			st.nextPayload++
			var bs [][]byte
			for i := range p {
				bs = append(bs, []byte{p[i]})
			}
			n, err := c.Writev(bs)
			accept(n, err, p)
		case "readfrom+flush":
			for _, p := range ps {
				n, err := c.ReadFrom(bytes.NewReader(p))
				accept(int(n), err, p)
			}
			if err := c.Flush(); err != nil {
				w.violate("out:flush", "%s Flush: %v", where, err)
			}
		}
		if !ci.c.(*conn).opened {
			return
		}
		w.outAccounting(ci, st, where+" after "+op.kind)
	}
}

func outWorld(c outCfg) *world {
	w := newWorld(c.name)
	w.opts = append(w.opts, WithWriteBufferCap(c.wcap))
	if c.mode == "ET" {
		w.opts = append(w.opts, WithEdgeTriggeredIO(true))
	}
	if c.sndbuf > 0 {
		w.opts = append(w.opts, WithSocketSendBuffer(c.sndbuf))
	}
	if c.chunk > 0 {
		w.opts = append(w.opts, WithEdgeTriggeredIOChunk(c.chunk))
	}
	if c.tcp {
		a := &unix.SockaddrInet4{Addr: [4]byte{127, 0, 0, 1}}
		w.addr = fmt.Sprintf("tcp://127.0.0.1:%d", freeTCPPort(a, false))
		w.opts = append(w.opts, WithReuseAddr(true))
	}
	st := &outState{}
	w.aux = st
	if c.deviate {
		lt := c.mode == "LT"
		w.deviate = func(site string, fd int, n int) []string {
			if (site == "write" || site == "writev") && n > 1 && mcsys.Owner(fd) == "fw" {
				// only connection sockets (not the eventfd): they were created by accept4
				for _, e := range mcsys.L.Events {
					if e.Op == "accept4" && e.N == fd {
						if lt {
							return []string{"short1", "shorthalf", "EAGAIN"}
						}
						return []string{"short1", "shorthalf"}
					}
				}
			}
			return nil
		}
	}
	w.onOpen = func(w *world, ci *connInfo) ([]byte, Action) {
		w.runOutOps(ci, st, c.inOpen, &st.cbSeq, "OnOpen")
		if c.reply > 0 {
			p := payload(st.nextPayload, c.reply)
			st.nextPayload++
			st.cbSeq = append(st.cbSeq, p)
			return append([]byte{}, p...), None
		}
		return nil, None
	}
	ran := false
	w.onTraffic = func(w *world, ci *connInfo) Action {
		_, _ = ci.c.Discard(-1)
		if !ran {
			ran = true
			w.outAccounting(ci, st, "at OnTraffic entry")
			w.runOutOps(ci, st, c.inTraf, &st.cbSeq, "OnTraffic")
			st.done = true
		}
		return None
	}
	w.script = func(w *world) {
		if c.tcp {
			sched.SetSettle(6) // loopback TCP delivers asynchronously
		}
		done := 0
		expected := func() int { return total(st.cbSeq, st.userSeq) }
		planned := 0
		for _, ops := range [][]outOp{c.inOpen, c.inTraf, c.user} {
			for _, op := range ops {
				for _, s := range op.sizes {
					planned += s
				}
				if op.kind == "writev1025" {
					planned += 1025
				}
			}
		}
		planned += c.reply
		userDone := len(c.user) == 0
		w.peerThread("peer", &done, func(p *peer) {
			if !p.connect() {
				return
			}
			p.send([]byte("g"))
			if c.stall {
				sched.WaitIdle()
			}
			// the peer is willing to read everything: all accepted bytes must arrive
			sched.BlockUntil(func() bool { return st.done && userDone || p.eof })
			_ = planned
			p.recv(expected())
			p.close()
		})
		if len(c.user) > 0 {
			sched.Go("user", func() {
				defer func() { done++ }()
				sched.BlockUntil(func() bool { return len(w.conns) > 0 && st.done })
				cn := w.conns[0].c
				for _, op := range c.user {
					var ps [][]byte
					for _, s := range op.sizes {
						ps = append(ps, payload(st.nextPayload, s))
						st.nextPayload++
					}
					cb := func(_ Conn, err error) error { st.asyncCbs++; st.asyncErrs = append(st.asyncErrs, err); return nil }
					switch op.kind {
					case "asyncwrite":
						for _, p := range ps {
							st.asyncWant++
							if err := cn.AsyncWrite(append([]byte{}, p...), cb); err == nil {
								st.userSeq = append(st.userSeq, p)
							}
						}
					case "asyncwritev":
						st.asyncWant++
						cps := make([][]byte, len(ps))
						for i, p := range ps {
							cps[i] = append([]byte{}, p...)
						}
						if err := cn.AsyncWritev(cps, cb); err == nil {
							for _, p := range ps {
								if len(p) > 0 {
									st.userSeq = append(st.userSeq, p)
								}
							}
						}
					}
				}
				userDone = true
			})
			w.ctl(&done, 2, nil)
		} else {
			w.ctl(&done, 1, nil)
		}
	}
	w.deadlockOK = false
	w.checks = append(w.checks, func(w *world, out *sched.Outcome) (string, string) {
		if len(w.conns) == 0 || len(w.peers) == 0 {
			return "", ""
		}
		p := w.peers[0]
		ci := w.conns[0]
		if ci.closes > 0 && ci.closeErr != nil && !w.runDone {
			return "", "" // the connection died of an I/O error: C02 speaks about connections that stay open
		}
		// the received stream must be a merge of the two accepted sequences, payloads contiguous
		a, b := st.cbSeq, st.userSeq
		rest := p.got
		for len(rest) > 0 {
			switch {
			case len(a) > 0 && len(rest) >= len(a[0]) && bytes.Equal(rest[:len(a[0])], a[0]):
				rest, a = rest[len(a[0]):], a[1:]
			case len(b) > 0 && len(rest) >= len(b[0]) && bytes.Equal(rest[:len(b[0])], b[0]):
				rest, b = rest[len(b[0]):], b[1:]
			case len(a) > 0 && bytes.Equal(rest, a[0][:minI(len(rest), len(a[0]))]) && (out.End != "complete" || true):
				rest = nil // a proper prefix of the next payload (stream cut short: judged below)
				a = append([][]byte{a[0]}, a[1:]...)
			case len(b) > 0 && bytes.Equal(rest, b[0][:minI(len(rest), len(b[0]))]):
				rest = nil
			default:
				off := len(p.got) - len(rest)
				return fmt.Sprintf("the peer received %d bytes; at offset %d they are not the next accepted payload of the callback sequence nor of the asynchronous sequence (loss, duplication, reordering, interleaving or corruption)", len(p.got), off), "out:content"
			}
		}
		want := total(st.cbSeq, st.userSeq)
		if len(p.got) < want && p.rerr == nil && !(ci.closes > 0 && ci.closeErr != nil) {
			return fmt.Sprintf("the peer was willing to read but received only %d of %d accepted bytes (end=%s, blocked=%v, OutboundBuffered=%d)", len(p.got), want, out.End, out.Blocked, outBuffered(ci)), "out:stuck"
		}
		if st.asyncCbs != st.asyncWant {
			return fmt.Sprintf("%d asynchronous writes were accepted, %d callbacks ran", st.asyncWant, st.asyncCbs), "out:asynccb"
		}
		return "", ""
	}, checkEnd)
	return w
}

// outClientWorld: the same write programs on the client side (Client.Enroll of a socketpair end).
func outClientWorld(c outCfg) sched.Scenario {
	w := outWorld(c)
	st := w.aux.(*outState)
	opts := append([]Option{WithLogger(nopLogger{}), WithNumEventLoop(1)}, w.opts...)
	cw := &clientWorld{world: w}
	cw.body = func(cw *clientWorld) {
		cli, err := NewClient(&mcHandler{w}, opts...)
		if err != nil {
			w.violate("client:new", "NewClient: %v", err)
			return
		}
		if err := cli.Start(); err != nil {
			w.violate("client:start", "Client.Start: %v", err)
			return
		}
		w.booted = true
		nc, pfd, err := socketpairConn()
		if err != nil {
			w.violate("client:socketpair", "%v", err)
			return
		}
		p := w.newPeer()
		p.fd = pfd
		finished := false
		sched.Go("peer", func() {
			p.send([]byte("g"))
			if c.stall {
				sched.WaitIdle()
			}
			sched.BlockUntil(func() bool { return st.done || p.eof })
			p.recv(total(st.cbSeq, st.userSeq))
			finished = true
		})
		if _, err := cli.Enroll(nc); err != nil {
			w.violate("client:enroll", "Client.Enroll: %v", err)
		}
		sched.BlockUntil(func() bool { return finished })
		sched.WaitIdle()
		w.runErr = cli.Stop()
		sched.Go("closer", func() { p.close() })
	}
	return cw
}

func outBuffered(ci *connInfo) int {
	if c, ok := ci.c.(*conn); ok && c.opened {
		return c.OutboundBuffered()
	}
	return -1
}

func minI(a, b int) int {
	if a < b {
		return a
	}
	return b
}

// backlogWorld: more than 1024 asynchronous requests are pending (the poller's urgent queue is at
// its threshold) when one goroutine issues AsyncWrite, AsyncWritev, AsyncWrite: issue order must hold.
func backlogWorld(mode string) *world {
	w := newWorld("out/" + mode + "/async-backlog-1024")
	if mode == "ET" {
		w.opts = append(w.opts, WithEdgeTriggeredIO(true))
	}
	const n = 1030
	issued := false
	var want []byte
	cbs := 0
	w.onTraffic = func(w *world, ci *connInfo) Action {
		_, _ = ci.c.Discard(-1)
		// the loop is busy in this callback until the user goroutine has queued everything
		sched.BlockUntil(func() bool { return issued })
		return None
	}
	w.script = func(w *world) {
		done := 0
		p0 := w.peerThread("peer", &done, func(p *peer) {
			if !p.connect() {
				return
			}
			p.send([]byte("g"))
			sched.BlockUntil(func() bool { return issued })
			p.recv(len(want))
			p.close()
		})
		sched.Go("user", func() {
			defer func() { done++ }()
			sched.BlockUntil(func() bool { return len(w.conns) > 0 && w.conns[0].traffics > 0 })
			c := w.conns[0].c
			cb := func(Conn, error) error { cbs++; return nil }
			for i := 0; i < n; i++ {
				b := []byte{byte('a' + i%26)}
				if c.AsyncWrite(b, cb) == nil {
					want = append(want, b...)
				}
			}
			if c.AsyncWritev([][]byte{[]byte("<V1"), []byte("V2>")}, cb) == nil {
				want = append(want, []byte("<V1V2>")...)
			}
			if c.AsyncWrite([]byte("[LAST]"), cb) == nil {
				want = append(want, []byte("[LAST]")...)
			}
			issued = true
		})
		w.ctl(&done, 2, func() {
			if !bytes.Equal(p0.got, want) {
				i := 0
				for i < len(p0.got) && i < len(want) && p0.got[i] == want[i] {
					i++
				}
				w.violate("out:async-order", "one goroutine issued %d AsyncWrite, one AsyncWritev and one AsyncWrite while the loop was busy; the peer received %d of %d bytes and they differ from issue order at offset %d", n, len(p0.got), len(want), i)
			}
			if cbs != n+2 {
				w.violate("out:asynccb", "%d asynchronous writes were accepted, %d callbacks ran", n+2, cbs)
			}
		})
	}
	w.checks = append(w.checks, checkEnd)
	return w
}

func outConfigs(thorough bool) []outCfg {
	var out []outCfg
	type prog struct {
		name   string
		cfg    outCfg
		always bool
	}
	progs := []prog{
		{"write1025+write1", outCfg{wcap: 1024, inTraf: []outOp{{"write", []int{1025, 1}}}, deviate: true}, true},
		{"writev-split", outCfg{wcap: 1024, inTraf: []outOp{{"writev", []int{1023, 2, 0, 5}}, {"write", []int{3}}}, deviate: true}, true},
		{"writev1025segs", outCfg{wcap: 2048, inTraf: []outOp{{"writev1025", nil}, {"write", []int{2}}}, deviate: true}, true},
		{"readfrom+flush", outCfg{wcap: 1024, inTraf: []outOp{{"readfrom+flush", []int{3000}}, {"write", []int{1}}}, deviate: true}, true},
		{"readfrom+flush-backpressure", outCfg{wcap: 1024, inTraf: []outOp{{"readfrom+flush", []int{600 * 1024}}}, stall: true}, true},
		{"write-backpressure", outCfg{wcap: 1024, inTraf: []outOp{{"write", []int{300 * 1024, 1024, 1}}}, stall: true}, true},
		{"writev-backpressure", outCfg{wcap: 2048, inTraf: []outOp{{"writev", []int{200 * 1024, 100 * 1024}}, {"writev", []int{7, 0, 9}}}, stall: true}, false},
		{"onopen-write+reply", outCfg{wcap: 1024, inOpen: []outOp{{"write", []int{10}}}, reply: 7, deviate: true}, true},
		{"onopen-reply-only", outCfg{wcap: 1024, reply: 1025, inTraf: []outOp{{"write", []int{4}}}, deviate: true}, false},
		{"async-one-goroutine", outCfg{wcap: 1024, user: []outOp{{"asyncwrite", []int{5, 1025}}, {"asyncwritev", []int{3, 0, 4}}}, deviate: true, heavy: true}, true},
		{"async+callback-writes", outCfg{wcap: 1024, inTraf: []outOp{{"write", []int{6}}}, user: []outOp{{"asyncwrite", []int{5}}, {"asyncwrite", []int{9}}}, heavy: true}, false},
		// TCP: an EPOLLOUT edge comes only after the socket had been full, so in ET mode a write round
		// that stops at the chunk limit with output still pending depends on the loop re-issuing the
		// write itself (on a unix socket every read of the peer raises a fresh edge and hides a lost
		// continuation). A short write of exactly half of 2048 makes the round end at exactly the chunk.
		{"tcp-chunk1024-readfrom2048+flush", outCfg{wcap: 1024, chunk: 1024, tcp: true, inTraf: []outOp{{"readfrom+flush", []int{2048}}, {"write", []int{1}}}, deviate: true}, true},
		{"write0", outCfg{wcap: 1024, inTraf: []outOp{{"write", []int{0, 1, 0}}, {"writev", []int{0}}, {"writev", nil}}}, false},
	}
	for _, mode := range []string{"LT", "ET"} {
		for _, p := range progs {
			if !thorough && !p.always {
				continue
			}
			if p.cfg.chunk > 0 && mode == "LT" {
				continue // WithEdgeTriggeredIOChunk implies edge-triggered I/O
			}
			c := p.cfg
			c.mode = mode
			c.name = "out/" + mode + "/" + p.name
			out = append(out, c)
		}
	}
	return out
}

func outSchedConfigs() ([]sched.Config, func(string) *sched.Config) {
	thorough := seqmc.Tier() == "thorough"
	mk := func(c outCfg) sched.Config {
		bounds := []sched.Bound{{PB: 0, DB: 0}, {PB: 0, DB: 1}, {PB: 1, DB: 0}, {PB: 1, DB: 1}, {PB: 0, DB: 2}}
		if c.heavy || c.stall {
			bounds = []sched.Bound{{PB: 0, DB: 0}, {PB: 0, DB: 1}, {PB: 1, DB: 0}}
		}
		if thorough {
			bounds = append(bounds, sched.Bound{PB: 1, DB: 2}, sched.Bound{PB: 2, DB: 1})
		}
		return sched.Config{Property: "C02", Name: c.name, Bounds: bounds, Horizon: 60000, Deadline: seqmc.Deadline(), DelayBounded: true, TolerateNondeterminism: c.tcp, New: func() sched.Scenario { return outWorld(c) }}
	}
	var all []sched.Config
	for _, c := range outConfigs(true) {
		all = append(all, mk(c))
	}
	var sel []sched.Config
	for _, c := range outConfigs(thorough) {
		sel = append(sel, mk(c))
	}
	for _, c := range outConfigs(true) {
		c := c
		if c.name == "out/LT/write1025+write1" || c.name == "out/ET/write1025+write1" || c.name == "out/LT/readfrom+flush" || c.name == "out/ET/writev-split" {
			cc := mk(c)
			cc.Name = "client/" + c.name
			c.name = cc.Name
			cc.New = func() sched.Scenario { return outClientWorld(c) }
			all = append(all, cc)
			sel = append(sel, cc)
		}
	}
	for _, mode := range []string{"LT", "ET"} {
		mode := mode
		bl := sched.Config{Property: "C02", Name: "out/" + mode + "/async-backlog-1024", Bounds: []sched.Bound{{PB: 0}}, Horizon: 400000, Deadline: seqmc.Deadline(), DelayBounded: true,
			New: func() sched.Scenario { return backlogWorld(mode) }}
		if thorough {
			bl.Bounds = append(bl.Bounds, sched.Bound{PB: 1})
		}
		all = append(all, bl)
		sel = append(sel, bl)
	}
	return sel, func(name string) *sched.Config {
		for i := range all {
			if all[i].Name == name {
				return &all[i]
			}
		}
		return nil
	}
}

func TestMC_C02(t *testing.T) {
	cfgs, byName := outSchedConfigs()
	runEngineCheck(t, "C02", cfgs, byName, fmt.Sprintf("%d (mode, write program) configurations on unix sockets: Write/Writev/ReadFrom+Flush/AsyncWrite/AsyncWritev/OnOpen reply with sizes around the ring capacity, the static limit and IOV_MAX, real back-pressure (peer stalls until quiescence) and injected short writes/EAGAIN; every schedule within the delay bound and every acceptance pattern within the deviation bound listed per scenario", len(cfgs)))
}
