//go:build !gc_opt

package gnet

import (
	"fmt"
	"sort"
	"strings"
)

const c14Variant = "map"

func c14Key(cm *connMatrix) string {
	var fds []int
	for fd := range cm.connMap {
		fds = append(fds, fd)
	}
	sort.Ints(fds)
	return fmt.Sprint(cm.connCount, fds) + c14Scalars(cm)
}

func c14Extra(cm *connMatrix, live map[int]*conn) string {
	if len(cm.connMap) != len(live) {
		var s []string
		for fd := range cm.connMap {
			s = append(s, fmt.Sprint(fd))
		}
		return "internal map holds " + strings.Join(s, ",")
	}
	return ""
}

func c14Capacity() int { return 1 << 30 }
