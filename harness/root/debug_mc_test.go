//go:build verifmc

package gnet

import (
	"fmt"
	"os"
	"strings"
	"testing"

	"github.com/panjf2000/gnet/v2/internal/verifmc/sched"
)

// TestMC_Debug runs the default schedule of the scenarios whose name contains MC_ONLY a few times
// and prints what happened (development aid, not registered as a check).
func TestMC_Debug(t *testing.T) {
	only := os.Getenv("MC_ONLY")
	cfgs, _ := lifeSchedConfigs("DBG", lifecycleCheck)
	switch os.Getenv("MC_DEBUG_SET") {
	case "C01":
		cfgs, _ = inSchedConfigs()
	case "C06":
		cfgs, _ = shutSchedConfigs()
	case "C18":
		cfgs, _ = faultSchedConfigs()
	case "CLIENT":
		cfgs = clientConfigs("DBG")
	}
	for _, c := range cfgs {
		if only == "" || !strings.Contains(c.Name, only) {
			continue
		}
		for i := 0; i < 4; i++ {
			sc := c.New()
			out := sched.RunOnce(nil, 40000, true, sc.Body)
			w, ok := sc.(*world)
			if !ok {
				w = sc.(*clientWorld).world
			}
			msg, sig := w.Check(out)
			fmt.Printf("%s run %d: end=%s steps=%d decisions=%d %s | %s %s\n", c.Name, i, out.End, out.Steps, len(out.Decisions), w.describe()+" obs="+strings.Join(w.obs, ","), sig, msg)
			if os.Getenv("MC_TRACE") != "" {
				for _, s := range out.Trace {
					if !strings.HasPrefix(s.Kind, "atomic") || os.Getenv("MC_TRACE") == "all" {
						fmt.Printf("   T%d %s %d\n", s.T, s.Kind, s.Obj)
					}
				}
			}
		}
	}
}
