//go:build verifmc

package gnet

// Live clauses of C15 (the loop a connection is assigned to is the loop on which all of its
// callbacks run; assignment follows the policy) and C17 (RemoteAddr/LocalAddr are truthful for
// the whole life of a connection under churn), plus the engine-level seam of C03.

import (
	"bytes"
	"context"
	"fmt"
	"net"
	"os"
	"testing"
	"unsafe"

	"golang.org/x/sys/unix"

	"github.com/panjf2000/gnet/v2/internal/verifmc/mcsys"
	"github.com/panjf2000/gnet/v2/internal/verifmc/sched"
	"github.com/panjf2000/gnet/v2/internal/verifmc/seqmc"
	"github.com/panjf2000/gnet/v2/pkg/pool/byteslice"
)

// ---- C15 live -------------------------------------------------------------------------------------

func lbWorld(lb LoadBalancing, name string, loops int) *world {
	w := newWorld(name)
	w.opts = []Option{WithNumEventLoop(loops), WithLoadBalancing(lb)}
	type obs struct {
		loopIdx int
		thread  int
	}
	var order []int      // loop index of each connection in accept order
	var remotes []string // its remote address string
	regLoop, regWant := -1, -1
	seenLoop := map[Conn]obs{}
	counts := func() []int {
		out := make([]int, loops)
		for _, ci := range w.conns {
			if ci.opens > 0 && ci.closes == 0 {
				out[ci.loop.(*eventloop).idx]++
			}
		}
		return out
	}
	var before [][]int
	track := func(ci *connInfo, where string) {
		el := ci.c.EventLoop().(*eventloop)
		o := obs{el.idx, sched.CurrentThread()}
		if p, ok := seenLoop[ci.c]; ok {
			if p.loopIdx != o.loopIdx {
				w.violate("lb:migrated", "connection #%d changed loops: %d -> %d (%s)", ci.id, p.loopIdx, o.loopIdx, where)
			}
			if p.thread != o.thread {
				w.violate("lb:thread", "connection #%d: %s ran on thread %d, OnOpen on thread %d", ci.id, where, o.thread, p.thread)
			}
		} else {
			seenLoop[ci.c] = o
		}
	}
	w.onOpen = func(w *world, ci *connInfo) ([]byte, Action) {
		track(ci, "OnOpen")
		order = append(order, ci.c.EventLoop().(*eventloop).idx)
		ra := ""
		if a := ci.c.RemoteAddr(); a != nil {
			ra = a.String()
		}
		remotes = append(remotes, ra)
		return nil, None
	}
	w.onTraffic = func(w *world, ci *connInfo) Action { track(ci, "OnTraffic"); return echoTraffic(w, ci) }
	w.onClose = func(w *world, ci *connInfo, err error) Action { track(ci, "OnClose"); return None }
	w.script = func(w *world) {
		done := 0
		// sequential churn by one peer thread: open 3, close the one on the busiest loop, open 2 more
		sched.Go("peer", func() {
			defer func() { done++ }()
			w.waitBoot()
			var ps []*peer
			open := func() {
				before = append(before, counts())
				p := w.newPeer()
				n := len(w.conns)
				if !p.connect() {
					return
				}
				sched.BlockUntil(func() bool { return len(w.conns) > n })
				p.send([]byte("hi"))
				p.recv(2)
				ps = append(ps, p)
			}
			for i := 0; i < 3; i++ {
				open()
			}
			if len(ps) > 0 {
				closed := 0
				for _, ci := range w.conns {
					if ci.closes > 0 {
						closed++
					}
				}
				ps[0].close()
				sched.BlockUntil(func() bool {
					n := 0
					for _, ci := range w.conns {
						if ci.closes > 0 {
							n++
						}
					}
					return n > closed
				})
			}
			open()
			open()
			if lb == SourceAddrHash {
				// Engine.Register of a dialled connection: it must be served by the loop its REMOTE address hashes to
				if nc, err := net.Dial("unix", sockPath()); err == nil {
					hl := w.eng.eng.eventLoops.(*sourceAddrHashLoadBalancer)
					regWant = hl.next(nc.RemoteAddr()).idx
					if ch, err := w.eng.Register(NewNetConnContext(context.Background(), nc)); err == nil {
						if res, ok, _ := recvRes(w, ch); ok && res.Conn != nil {
							regLoop = res.Conn.EventLoop().(*eventloop).idx
							_ = res.Conn.Close()
						}
					}
				}
			}
			for _, p := range ps[1:] {
				p.close()
			}
		})
		w.ctl(&done, 1, nil)
	}
	w.checks = append(w.checks, checkEnd, func(w *world, out *sched.Outcome) (string, string) {
		for i, l := range order {
			if l < 0 || l >= loops {
				return fmt.Sprintf("connection %d was assigned to loop index %d of %d", i, l, loops), "lb:range"
			}
			switch lb {
			case RoundRobin:
				if l != i%loops {
					return fmt.Sprintf("round-robin with %d loops: accept #%d went to loop %d (sequence %v)", loops, i, l, order), "lb:roundrobin"
				}
			case LeastConnections:
				if i < len(before) {
					for j, c := range before[i] {
						if c < before[i][l] {
							return fmt.Sprintf("least-connections: accept #%d went to loop %d with %d connections while loop %d had %d (counts %v)", i, l, before[i][l], j, c, before[i]), "lb:leastconn"
						}
					}
				}
			case SourceAddrHash:
				for j := 0; j < i; j++ {
					if remotes[j] == remotes[i] && order[j] != l {
						return fmt.Sprintf("source-addr-hash: connections from the same remote address %q went to loops %d and %d", remotes[i], order[j], l), "lb:hash"
					}
				}
			}
		}
		if lb == SourceAddrHash && regLoop >= 0 && regLoop != regWant {
			return fmt.Sprintf("source-addr-hash: a connection registered through Engine.Register is served by loop %d, its remote address hashes to loop %d", regLoop, regWant), "lb:register-hash"
		}
		if len(order) < 5 && w.runDone {
			return fmt.Sprintf("only %d of 5 connections were opened", len(order)), "lb:harness"
		}
		return "", ""
	})
	return w
}

func TestMC_C15live(t *testing.T) {
	var cfgs []sched.Config
	for _, c := range []struct {
		lb   LoadBalancing
		name string
	}{{RoundRobin, "round-robin"}, {LeastConnections, "least-connections"}, {SourceAddrHash, "source-addr-hash"}} {
		for _, loops := range []int{2, 3} {
			c, loops := c, loops
			name := fmt.Sprintf("lb-live/%s/%d-loops", c.name, loops)
			cfgs = append(cfgs, sched.Config{Property: "C15", Name: name, Bounds: engineBounds(1, 2, 0), Horizon: 40000, Deadline: seqmc.Deadline(), DelayBounded: true,
				New: func() sched.Scenario { return lbWorld(c.lb, name, loops) }})
		}
	}
	runEngineCheck(t, "C15", cfgs, func(name string) *sched.Config {
		for i := range cfgs {
			if cfgs[i].Name == name {
				return &cfgs[i]
			}
		}
		return nil
	}, "live clause: 3 policies x {2,3} loops, reactor mode, 5 sequential connections with one close in between; assignment follows the policy, a connection never changes loops, all its callbacks run on the thread of its OnOpen; every schedule within the delay bound")
}

// ---- C17 live -------------------------------------------------------------------------------------

// tcpPort asks the kernel for a currently free port on the given address (probe socket bound to
// port 0, closed again): fixed per-process ports collided with lingering sockets of earlier runs.
func freeTCPPort(sa unix.Sockaddr, v6 bool) int {
	dom := unix.AF_INET
	if v6 {
		dom = unix.AF_INET6
	}
	fd, err := unix.Socket(dom, unix.SOCK_STREAM|unix.SOCK_CLOEXEC, 0)
	if err != nil {
		return 40000 + os.Getpid()%20000
	}
	defer unix.Close(fd)
	_ = unix.SetsockoptInt(fd, unix.SOL_SOCKET, unix.SO_REUSEADDR, 1)
	if err := unix.Bind(fd, sa); err != nil {
		return 40000 + os.Getpid()%20000
	}
	got, err := unix.Getsockname(fd)
	if err != nil {
		return 40000 + os.Getpid()%20000
	}
	switch a := got.(type) {
	case *unix.SockaddrInet4:
		return a.Port
	case *unix.SockaddrInet6:
		return a.Port
	}
	return 40000 + os.Getpid()%20000
}

func saToAddr(sa unix.Sockaddr) string {
	switch a := sa.(type) {
	case *unix.SockaddrInet4:
		return (&net.TCPAddr{IP: a.Addr[:], Port: a.Port}).String()
	case *unix.SockaddrInet6:
		z := ""
		if a.ZoneId != 0 {
			if ifi, err := net.InterfaceByIndex(int(a.ZoneId)); err == nil {
				z = ifi.Name
			}
		}
		return (&net.TCPAddr{IP: a.Addr[:], Port: a.Port, Zone: z}).String()
	}
	return "?"
}

func linkLocal() (net.IP, string, int) {
	ifs, _ := net.Interfaces()
	for _, ifi := range ifs {
		addrs, _ := ifi.Addrs()
		for _, a := range addrs {
			if ipn, ok := a.(*net.IPNet); ok && ipn.IP.To4() == nil && ipn.IP.IsLinkLocalUnicast() {
				return ipn.IP, ifi.Name, ifi.Index
			}
		}
	}
	return nil, "", 0
}

func addrWorld(kind string) *world {
	w := newWorld("addr-live/" + kind)
	w.opts = append(w.opts, WithReuseAddr(true)) // consecutive executions re-bind the same port
	var dst unix.Sockaddr
	v6 := false
	var wantLocal string
	switch kind {
	case "tcp4":
		a := &unix.SockaddrInet4{Addr: [4]byte{127, 0, 0, 1}}
		a.Port = freeTCPPort(a, false)
		dst = a
		w.addr = fmt.Sprintf("tcp://127.0.0.1:%d", a.Port)
		wantLocal = fmt.Sprintf("127.0.0.1:%d", a.Port)
	case "tcp6":
		a := &unix.SockaddrInet6{}
		a.Addr[15] = 1
		a.Port = freeTCPPort(a, true)
		dst, v6 = a, true
		w.addr = fmt.Sprintf("tcp://[::1]:%d", a.Port)
		wantLocal = fmt.Sprintf("[::1]:%d", a.Port)
	case "tcp6-linklocal":
		ip, name, idx := linkLocal()
		a := &unix.SockaddrInet6{ZoneId: uint32(idx)}
		copy(a.Addr[:], ip.To16())
		a.Port = freeTCPPort(a, true)
		dst, v6 = a, true
		w.addr = fmt.Sprintf("tcp://[%s%%%s]:%d", ip, name, a.Port)
		wantLocal = fmt.Sprintf("[%s%%%s]:%d", ip, name, a.Port)
	case "unix":
		wantLocal = sockPath()
	}
	want := map[int]string{} // connection id -> expected remote address
	pending := []string{}
	check := func(ci *connInfo, where string) {
		if la := ci.c.LocalAddr(); la == nil || la.String() != wantLocal {
			w.violate("addr:local", "connection #%d %s: LocalAddr() = %v, the listener is bound to %s", ci.id, where, la, wantLocal)
		}
		ra := ci.c.RemoteAddr()
		if kind == "unix" {
			return
		}
		if exp, ok := want[ci.id]; ok && (ra == nil || ra.String() != exp) {
			w.violate("addr:remote", "connection #%d %s: RemoteAddr() = %v, the peer connected from %s", ci.id, where, ra, exp)
		}
	}
	w.onOpen = func(w *world, ci *connInfo) ([]byte, Action) {
		if len(pending) > 0 {
			// accept order = connect order (one peer thread connects sequentially)
			want[ci.id] = pending[0]
			pending = pending[1:]
		}
		check(ci, "in OnOpen")
		return nil, None
	}
	w.onTraffic = func(w *world, ci *connInfo) Action { check(ci, "in OnTraffic"); return echoTraffic(w, ci) }
	w.onClose = func(w *world, ci *connInfo, err error) Action { check(ci, "in OnClose"); return None }
	w.script = func(w *world) {
		done := 0
		if kind != "unix" {
			sched.SetSettle(6) // loopback TCP delivers asynchronously
		}
		sched.Go("peer", func() {
			defer func() { done++ }()
			w.waitBoot()
			var ps []*peer
			open := func() {
				p := w.newPeer()
				n := len(w.conns)
				if kind == "unix" {
					if !p.connect() {
						return
					}
				} else {
					fd, local, err := mcsys.PConnectTCP(dst, v6)
					if err != nil {
						w.violate("addr:harness", "connect: %v", err)
						return
					}
					p.fd = fd
					pending = append(pending, saToAddr(local))
				}
				sched.BlockUntil(func() bool { return len(w.conns) > n })
				p.send([]byte("hi"))
				p.recv(2)
				ps = append(ps, p)
			}
			// churn: address buffers and zone strings of released connections go back to pools
			open()
			open()
			ps[0].close()
			sched.BlockUntil(func() bool { return w.conns[0].closes > 0 })
			sched.WaitIdle()
			churnPools(4) // zone strings / address buffers of the released connection went back to pools
			churnPools(8)
			open()
			ps[1].send([]byte("again"))
			ps[1].recv(7)
			open()
			for _, p := range ps[1:] {
				p.send([]byte("x"))
				p.close()
			}
		})
		w.ctl(&done, 1, nil)
	}
	w.checks = append(w.checks, checkEnd, func(w *world, out *sched.Outcome) (string, string) {
		if w.runDone && len(w.conns) < 4 {
			return fmt.Sprintf("only %d of 4 connections were opened (end=%s)", len(w.conns), out.End), "addr:harness"
		}
		return "", ""
	})
	return w
}

// clientZoneWorld: the addresses of a connection enrolled through a Client are the net.Conn's: the
// zone strings inside them belong to package net (its process-wide zone cache) or to the caller
// (the string it dialled with). The framework must not hand that memory to its byte-slice pool
// when the connection is released: the next user of the pool would overwrite the zone name under
// every other address of the process ("stay correct ... while many other connections are opened
// and closed"). No byte is written here: pool hand-outs are compared with the zone strings by
// address.
func clientZoneWorld(et bool) sched.Scenario {
	w := newWorld("addr-live/client-linklocal")
	cw := &clientWorld{world: w}
	cw.body = func(cw *clientWorld) {
		ip, zone, _ := linkLocal()
		opts := []Option{WithLogger(nopLogger{}), WithNumEventLoop(1)}
		if et {
			opts = append(opts, WithEdgeTriggeredIO(true))
		}
		cli, err := NewClient(&mcHandler{w}, opts...)
		if err != nil {
			w.violate("client:new", "NewClient: %v", err)
			return
		}
		if err := cli.Start(); err != nil {
			w.violate("client:start", "Client.Start: %v", err)
			return
		}
		// a connected UDP socket from the link-local address to itself: nobody has to answer
		nc, err := net.DialUDP("udp6", &net.UDPAddr{IP: ip, Zone: zone}, &net.UDPAddr{IP: ip, Port: 9, Zone: zone})
		if err != nil {
			w.obs = append(w.obs, "no-link-local-socket")
			w.runErr = cli.Stop()
			return
		}
		lz := nc.LocalAddr().(*net.UDPAddr).Zone
		rz := nc.RemoteAddr().(*net.UDPAddr).Zone
		foreign := func(b []byte) string {
			if len(b) == 0 {
				return ""
			}
			if len(lz) > 0 && &b[:1][0] == unsafe.StringData(lz) {
				return "LocalAddr (package net's zone cache)"
			}
			if len(rz) > 0 && &b[:1][0] == unsafe.StringData(rz) {
				return "RemoteAddr (the address the caller dialled)"
			}
			return ""
		}
		c, err := cli.Enroll(nc)
		if err != nil {
			w.violate("client:enroll", "Client.Enroll(udp6 link-local): %v", err)
			return
		}
		sched.BlockUntil(func() bool { return len(w.conns) > 0 && w.conns[0].opens > 0 })
		ci := w.conns[0]
		if la, ok := c.LocalAddr().(*net.UDPAddr); !ok || la.Zone != zone || !la.IP.Equal(ip) {
			w.violate("addr:local", "client connection reports LocalAddr %v, the socket is bound to %v%%%s", c.LocalAddr(), ip, zone)
		}
		if os.Getenv("MC_ZONEDBG") != "" {
			gl, _ := c.LocalAddr().(*net.UDPAddr)
			gr, _ := c.RemoteAddr().(*net.UDPAddr)
			fmt.Printf("ZONEDBG lz=%p rz=%p gnet-local=%p(%q) gnet-remote=%p(%q)\n", unsafe.StringData(lz), unsafe.StringData(rz), unsafe.StringData(gl.Zone), gl.Zone, unsafe.StringData(gr.Zone), gr.Zone)
		}
		el := c.EventLoop()
		_ = c.Close()
		sched.BlockUntil(func() bool { return ci.closes > 0 })
		sched.WaitIdle()
		// whoever takes small buffers from the shared pool next, on the loop or elsewhere
		churn := func(where string) {
			var held [][]byte
			for _, n := range []int{len(lz), len(rz)} {
				for r := 0; n > 0 && r < 4; r++ {
					b := byteslice.Get(n)
					if who := foreign(b); who != "" {
						w.violate("addr:zone-pooled", "after the client connection was closed, byteslice.Get(%d) (%s) hands out the memory of the zone string %q of the net.Conn's %s: the framework returned memory owned by package net / the caller to its pool", n, where, zone, who)
					}
					held = append(held, b)
				}
			}
			for _, b := range held {
				if foreign(b) == "" {
					byteslice.Put(b)
				}
			}
		}
		ran := false
		_ = el.Execute(context.Background(), runnable{func() { churn("on the event loop"); ran = true }})
		sched.BlockUntil(func() bool { return ran })
		churn("on another goroutine")
		w.runErr = cli.Stop()
	}
	w.checks = append(w.checks, checkEnd, func(w *world, out *sched.Outcome) (string, string) {
		for _, ci := range w.conns {
			if ci.opens != 1 || ci.closes != 1 || len(ci.afterClose) > 0 {
				return fmt.Sprintf("client connection #%d: OnOpen %d times, OnClose %d times, after close: %v", ci.id, ci.opens, ci.closes, ci.afterClose), "client:lifecycle"
			}
		}
		return "", ""
	})
	return cw
}

func TestMC_C17live(t *testing.T) {
	var cfgs []sched.Config
	kinds := []string{"unix", "tcp4", "tcp6"}
	if ip, _, _ := linkLocal(); ip != nil {
		kinds = append(kinds, "tcp6-linklocal")
	}
	for _, k := range kinds {
		k := k
		cfgs = append(cfgs, sched.Config{Property: "C17", Name: "addr-live/" + k, Bounds: engineBounds(1, 2, 0), Horizon: 40000, Deadline: seqmc.Deadline(), DelayBounded: true, TolerateNondeterminism: k != "unix",
			New: func() sched.Scenario { return addrWorld(k) }})
	}
	if ip, _, _ := linkLocal(); ip != nil {
		for _, et := range []bool{false, true} {
			et := et
			cfgs = append(cfgs, sched.Config{Property: "C17", Name: "addr-live/client-linklocal/" + map[bool]string{false: "LT", true: "ET"}[et], Bounds: engineBounds(1, 2, 0), Horizon: 40000, Deadline: seqmc.Deadline(), DelayBounded: true,
				New: func() sched.Scenario { return clientZoneWorld(et) }})
		}
	}
	runEngineCheck(t, "C17", cfgs, func(name string) *sched.Config {
		for i := range cfgs {
			if cfgs[i].Name == name {
				return &cfgs[i]
			}
		}
		return nil
	}, fmt.Sprintf("live clause: %v listeners, 4 connections with churn (open 2, close 1, open 2 more): at every OnOpen/OnTraffic/OnClose RemoteAddr equals the peer's getsockname and LocalAddr the listener's bound address; every schedule within the delay bound", kinds))
}

// ---- C03 engine seam --------------------------------------------------------------------------------

func seamWorld(et bool) *world {
	w := newWorld("engine-seam")
	if et {
		w.opts = append(w.opts, WithEdgeTriggeredIO(true))
	}
	w.onTraffic = func(w *world, ci *connInfo) Action { _, _ = ci.c.Discard(-1); return None }
	cbs := map[string]int{}
	execs := 0
	var awErr []error
	w.script = func(w *world) {
		done := 0
		p0 := w.peerThread("peer", &done, func(p *peer) {
			if p.connect() {
				sched.BlockUntil(func() bool { return len(w.conns) > 0 })
			}
		})
		sched.Go("user", func() {
			defer func() { done++ }()
			sched.BlockUntil(func() bool { return len(w.conns) > 0 })
			ci := w.conns[0]
			c := ci.c
			sched.WaitIdle() // the loop is idle, parked in epoll_wait: the classic lost wake-up window
			t0 := ci.traffics
			_ = c.AsyncWrite([]byte("one-"), func(_ Conn, err error) error { cbs["aw"]++; awErr = append(awErr, err); return nil })
			_ = c.AsyncWritev([][]byte{[]byte("two-"), []byte("three-")}, func(_ Conn, err error) error { cbs["awv"]++; awErr = append(awErr, err); return nil })
			_ = c.Wake(func(Conn, error) error { cbs["wake"]++; return nil })
			_ = c.EventLoop().Execute(context.Background(), runnable{func() { execs++ }})
			_ = c.AsyncWrite([]byte("four"), func(_ Conn, err error) error { cbs["aw2"]++; awErr = append(awErr, err); return nil })
			sched.WaitIdle()
			if cbs["aw"] != 1 || cbs["awv"] != 1 || cbs["wake"] != 1 || cbs["aw2"] != 1 || execs != 1 {
				w.violate("seam:once", "accepted asynchronous requests were not carried out exactly once: callbacks %v, runnable ran %d times", cbs, execs)
			}
			if ci.traffics != t0+1 {
				w.violate("seam:wake", "one Wake on an open connection resulted in %d OnTraffic invocations", ci.traffics-t0)
			}
			p0.recvAvail()
			if !bytes.Equal(p0.got, []byte("one-two-three-four")) {
				w.violate("seam:order", "asynchronous writes of one goroutine arrived as %q", p0.got)
			}
			_ = c.CloseWithCallback(func(Conn, error) error { cbs["close"]++; return nil })
			sched.WaitIdle()
			if cbs["close"] != 1 || ci.closes != 1 {
				w.violate("seam:close", "CloseWithCallback: callback ran %d times, OnClose %d times", cbs["close"], ci.closes)
			}
			p0.recvAvail()
			p0.close()
		})
		w.ctl(&done, 2, nil)
	}
	w.checks = append(w.checks, checkEnd)
	return w
}

func TestMC_C03seam(t *testing.T) {
	var cfgs []sched.Config
	for _, et := range []bool{false, true} {
		et := et
		cfgs = append(cfgs, sched.Config{Property: "C03", Name: "engine-seam/" + map[bool]string{false: "LT", true: "ET"}[et], Bounds: engineBounds(2, 3, 0), Horizon: 40000, Deadline: seqmc.Deadline(), DelayBounded: true,
			New: func() sched.Scenario {
				w := seamWorld(et)
				w.name = "engine-seam/" + map[bool]string{false: "LT", true: "ET"}[et]
				return w
			}})
	}
	runEngineCheck(t, "C03", cfgs, func(name string) *sched.Config {
		for i := range cfgs {
			if cfgs[i].Name == name {
				return &cfgs[i]
			}
		}
		return nil
	}, "engine seam: a user goroutine issues AsyncWrite, AsyncWritev, Wake, Execute, AsyncWrite and CloseWithCallback on an idle connection of a real one-loop engine (loop parked in epoll_wait); each carried out exactly once, one OnTraffic per Wake, payloads in issue order; every schedule within the delay bound")
}
