//go:build verifmc

package gnet

import (
	"fmt"
	"testing"
	"time"

	"github.com/panjf2000/gnet/v2/internal/verifmc/sched"
	"github.com/panjf2000/gnet/v2/internal/verifmc/seqmc"
)

func smokeWorld() sched.Scenario {
	w := newWorld("smoke")
	w.onTraffic = func(w *world, ci *connInfo) Action {
		b, _ := ci.c.Next(-1)
		_, _ = ci.c.Write(b)
		return None
	}
	w.onClose = func(w *world, ci *connInfo, err error) Action { return Shutdown }
	w.script = func(w *world) {
		p := w.newPeer()
		sched.Go("peer", func() {
			w.waitBoot()
			if !p.connect() {
				return
			}
			p.send([]byte("hello"))
			p.recv(5)
			p.close()
		})
	}
	w.checks = append(w.checks, checkEnd, func(w *world, out *sched.Outcome) (string, string) {
		if !w.runDone || w.runErr != nil {
			return fmt.Sprintf("Run did not return nil: done=%v err=%v end=%s blocked=%v", w.runDone, w.runErr, out.End, out.Blocked), "smoke:run"
		}
		if string(w.peers[0].got) != "hello" {
			return fmt.Sprintf("peer got %q", w.peers[0].got), "smoke:echo"
		}
		return "", ""
	})
	return w
}

func TestMC_Smoke(t *testing.T) {
	t0 := time.Now()
	pb := sched.EnvInt("MC_PB", 1)
	var bounds []sched.Bound
	for b := 0; b <= pb; b++ {
		bounds = append(bounds, sched.Bound{PB: b})
	}
	st, vs := sched.Explore(sched.Config{Property: "SMOKE", Name: "smoke", New: smokeWorld, Bounds: bounds, Horizon: 20000, Deadline: seqmc.Deadline()})
	fmt.Printf("smoke: %+v\n", st)
	for _, v := range vs {
		fmt.Printf("VIOL %s: %s\n", v.Sig, v.Msg)
		for _, l := range v.Trace {
			fmt.Println("   ", l)
		}
	}
	fmt.Printf("%.1fs, %.0f exec/s\n", time.Since(t0).Seconds(), float64(st.Executions)/time.Since(t0).Seconds())
	var res seqmc.Result
	res.Property = "SMOKE"
	res.AddSched(st, vs)
	_ = res.Write()
}
