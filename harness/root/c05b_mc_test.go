//go:build verifmc

package gnet

// C05, confinement clause without the race detector: the scenarios in which connections live on
// more than one event loop (a server with two loops whose connections close each other, a client
// with two loops and concurrent Enroll calls), judged by the world's one-thread-per-loop monitor
// (world.enter). The race-detector build (c05_mc_test.go) covers the data-race clause.

import (
	"fmt"
	"strings"
	"testing"

	"github.com/panjf2000/gnet/v2/internal/verifmc/sched"
	"github.com/panjf2000/gnet/v2/internal/verifmc/seqmc"
)

func confineConfigs() []sched.Config {
	var out []sched.Config
	life, _ := lifeSchedConfigs("C05", lifecycleCheck)
	for _, c := range life {
		if strings.HasPrefix(c.Name, "cross-loop-close/") {
			out = append(out, c)
		}
	}
	for _, c := range clientConfigs("C05") {
		if strings.HasPrefix(c.Name, "client-two-loops/") {
			c.Bounds = engineBounds(2, 3, 0)
			out = append(out, c)
		}
	}
	_ = seqmc.Tier
	return out
}

func TestMC_C05Confine(t *testing.T) {
	cfgs := confineConfigs()
	runEngineCheck(t, "C05", cfgs, func(name string) *sched.Config {
		for i := range cfgs {
			if cfgs[i].Name == name {
				return &cfgs[i]
			}
		}
		return nil
	}, fmt.Sprintf("%d multi-loop scenarios (two-loop server with cross-loop closes, two-loop client with concurrent Enroll) x {LT,ET}: every schedule within the delay bound, one-thread-per-event-loop monitor on every callback", len(cfgs)))
}
