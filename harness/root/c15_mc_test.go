package gnet

// C15 (policy part) — load balancing follows the selected policy. In-package, with fake event
// loops whose connection counts live in the real connMatrix.

import (
	"fmt"
	"hash/crc32"
	"net"
	"reflect"
	"strings"
	"testing"
	"unsafe"

	"github.com/panjf2000/gnet/v2/internal/verifmc/seqmc"
)

type strAddr string

func (a strAddr) Network() string { return "x" }
func (a strAddr) String() string  { return string(a) }

func c15Loops(lb loadBalancer, n int) []*eventloop {
	var els []*eventloop
	for i := 0; i < n; i++ {
		el := new(eventloop)
		el.connections.init()
		lb.register(el)
		els = append(els, el)
	}
	return els
}

func safeNext(lb loadBalancer, a net.Addr) (el *eventloop, pmsg string) {
	defer func() {
		if r := recover(); r != nil {
			pmsg = fmt.Sprint(r)
		}
	}()
	return lb.next(a), ""
}

func indexOf(els []*eventloop, el *eventloop) int {
	for i, e := range els {
		if e == el {
			return i
		}
	}
	return -1
}

// ---- least connections as a small transition system -----------------------------------------

type c15lc struct {
	lb    *leastConnectionsLoadBalancer
	els   []*eventloop
	conns [][]*conn
	nfd   int
	max   int
}

func (m *c15lc) counts() []int {
	out := make([]int, len(m.els))
	for i, el := range m.els {
		out[i] = int(el.countConn())
	}
	return out
}
func (m *c15lc) Key() string  { return fmt.Sprint(m.counts()) + seqmc.Scalars(m.lb) }
func (m *c15lc) Expand() bool { return true }
func (m *c15lc) Ops() []seqmc.Op {
	ops := []seqmc.Op{}
	total := 0
	for _, c := range m.counts() {
		total += c
	}
	if total < m.max {
		ops = append(ops, seqmc.Op{N: "accept"})
	}
	for i := range m.els {
		if len(m.conns[i]) > 0 {
			ops = append(ops, seqmc.Op{N: "close", A: []int{i}})
		}
	}
	return ops
}
func (m *c15lc) Apply(op seqmc.Op) (string, string) {
	switch op.N {
	case "accept":
		before := m.counts()
		el, p := safeNext(m.lb, strAddr("1.2.3.4:5"))
		if p != "" {
			return "least-connections next() panicked: " + p, "lc:panic"
		}
		i := indexOf(m.els, el)
		if i < 0 {
			return "least-connections next() returned a loop that is not registered", "lc:foreign"
		}
		for j, c := range before {
			if c < before[i] {
				return fmt.Sprintf("least-connections chose loop %d with %d connections while loop %d has %d (counts %v)", i, before[i], j, c, before), "lc:notminimal"
			}
		}
		m.nfd++
		c := &conn{fd: m.nfd}
		el.connections.addConn(c, i)
		m.conns[i] = append(m.conns[i], c)
	case "close":
		i := op.A[0]
		c := m.conns[i][len(m.conns[i])-1]
		m.conns[i] = m.conns[i][:len(m.conns[i])-1]
		m.els[i].connections.delConn(c)
	}
	for i, el := range m.els {
		if int(el.countConn()) != len(m.conns[i]) {
			return fmt.Sprintf("loop %d reports %d connections, holds %d", i, el.countConn(), len(m.conns[i])), "lc:count"
		}
	}
	return "", ""
}

func newC15lc(n, max int) func() seqmc.Instance {
	return func() seqmc.Instance {
		m := &c15lc{lb: new(leastConnectionsLoadBalancer), nfd: 2, max: max}
		m.els = c15Loops(m.lb, n)
		m.conns = make([][]*conn, n)
		return m
	}
}

// forgeCRC appends 4 bytes to prefix so that the IEEE CRC-32 of the result is target: the hash
// policy is a function of the checksum only, so addresses with extreme checksums (sign bit,
// all ones, zero) are the inputs that matter for its arithmetic.
func forgeCRC(prefix []byte, target uint32) []byte {
	tab := crc32.IEEETable
	var rev [256]byte
	for i := 0; i < 256; i++ {
		rev[tab[i]>>24] = byte(i)
	}
	var idx [4]byte
	r := ^target
	for i := 3; i >= 0; i-- {
		j := rev[r>>24]
		idx[i] = j
		r = (r ^ tab[j]) << 8
	}
	reg := ^crc32.ChecksumIEEE(prefix)
	out := append([]byte{}, prefix...)
	for i := 0; i < 4; i++ {
		b := byte(reg) ^ idx[i]
		out = append(out, b)
		reg = tab[idx[i]] ^ (reg >> 8)
	}
	return out
}

func c15Addresses() []net.Addr {
	long := strings.Repeat("p", 300)
	as := []net.Addr{
		&net.TCPAddr{IP: net.IPv4(127, 0, 0, 1), Port: 1}, &net.TCPAddr{IP: net.IPv4(127, 0, 0, 1), Port: 65535}, &net.TCPAddr{IP: net.IPv4(10, 1, 2, 3), Port: 80},
		&net.TCPAddr{IP: net.ParseIP("::1"), Port: 80}, &net.TCPAddr{IP: net.ParseIP("fe80::1"), Port: 80, Zone: "eth0"}, &net.TCPAddr{IP: net.ParseIP("fe80::1"), Port: 80, Zone: "77"},
		&net.TCPAddr{}, &net.UDPAddr{IP: net.IPv4(1, 1, 1, 1), Port: 53},
		&net.UnixAddr{Name: "/tmp/a.sock", Net: "unix"}, &net.UnixAddr{Name: "", Net: "unix"}, &net.UnixAddr{Name: "@abstract", Net: "unix"}, &net.UnixAddr{Name: "/" + long, Net: "unix"},
		strAddr(""), strAddr("x"), strAddr(long),
	}
	for i := 0; i < 40; i++ {
		as = append(as, &net.TCPAddr{IP: net.IPv4(192, 168, byte(i), byte(i*7)), Port: 1000 + i*13})
	}
	for _, t := range []uint32{0, 1, 0x7FFFFFFF, 0x80000000, 0x80000001, 0xFFFFFFFF, 0xFFFFFFFE} {
		f := forgeCRC([]byte("addr:"), t)
		if crc32.ChecksumIEEE(f) == t {
			as = append(as, strAddr(string(f)))
		}
	}
	return as
}

func TestMC_C15(t *testing.T) {
	thorough := seqmc.Tier() == "thorough"
	var res seqmc.Result
	res.Property = "C15"
	var viol []seqmc.Violation
	add := func(sig, msg string, a ...int) {
		for _, v := range viol {
			if v.Sig == sig {
				return
			}
		}
		viol = append(viol, seqmc.Violation{Property: "C15", Scenario: "policy", Sig: sig, Msg: msg, History: []seqmc.Op{{N: sig, A: a}}, Replays: 5})
	}
	var evals, distinct int64

	// Round-Robin: every N in 1..256, 3N accepts: cyclic, each loop exactly k after k*N
	for n := 1; n <= 256; n++ {
		lb := new(roundRobinLoadBalancer)
		els := c15Loops(lb, n)
		got := make([]int, n)
		prev := -1
		for k := 1; k <= 3; k++ {
			for j := 0; j < n; j++ {
				el, p := safeNext(lb, nil)
				evals++
				if p != "" {
					add("rr:panic", fmt.Sprintf("round-robin next() panicked with %d loops: %s", n, p), n)
					continue
				}
				i := indexOf(els, el)
				if i < 0 {
					add("rr:foreign", fmt.Sprintf("round-robin returned an unregistered loop (N=%d)", n), n)
					continue
				}
				if prev >= 0 && i != (prev+1)%n {
					add("rr:order", fmt.Sprintf("round-robin with %d loops: loop %d followed loop %d", n, i, prev), n)
				}
				prev = i
				got[i]++
			}
			for i, g := range got {
				if g != k {
					add("rr:uneven", fmt.Sprintf("round-robin with %d loops: after %d accepts loop %d has received %d", n, k*n, i, g), n)
				}
			}
		}
		distinct++
	}

	// Round-Robin from non-initial states: the cursor is a free-running counter, so the history
	// "2^16 / 2^31 / 2^32 accepts ago" is one assignment away. The order must stay cyclic across
	// these values for every N, powers of two or not (a 32-bit cursor wraps after 4e9 accepts: days
	// of traffic; 2^64 is out of reach and not tried).
	for _, n := range []int{2, 3, 5, 6, 7, 10, 12, 100, 255, 256} {
		for _, bits := range []uint{16, 31, 32} {
			lb := new(roundRobinLoadBalancer)
			els := c15Loops(lb, n)
			f := reflect.ValueOf(lb).Elem().FieldByName("nextIndex")
			if !f.IsValid() || f.Kind() < reflect.Uint || f.Kind() > reflect.Uint64 {
				continue // the cursor has been renamed or retyped beyond recognition: the fresh-cursor pass above still applies
			}
			start := uint64(1)<<bits - uint64(n) - 3
			reflect.NewAt(f.Type(), unsafe.Pointer(f.UnsafeAddr())).Elem().SetUint(start)
			prev := -1
			for j := 0; j < 2*n+6; j++ {
				el, p := safeNext(lb, nil)
				evals++
				if p != "" {
					add("rr:panic", fmt.Sprintf("round-robin next() panicked with %d loops after %d accepts: %s", n, start+uint64(j), p), n)
					break
				}
				i := indexOf(els, el)
				if i < 0 {
					add("rr:foreign", fmt.Sprintf("round-robin returned an unregistered loop (N=%d)", n), n)
					break
				}
				if prev >= 0 && i != (prev+1)%n {
					add("rr:order-history", fmt.Sprintf("round-robin with %d loops: around accept number 2^%d (cursor %d) loop %d followed loop %d", n, bits, start+uint64(j), i, prev), n, int(bits))
				}
				prev = i
			}
			distinct++
		}
	}

	// Least-Connections: BFS over accept/close sequences
	maxN, depth, maxConns := 4, 8, 6
	if thorough {
		maxN, depth, maxConns = 5, 12, 8
	}
	for n := 1; n <= maxN; n++ {
		st, vs := seqmc.Run(seqmc.Config{Property: "C15", Scenario: fmt.Sprintf("least-connections/N=%d", n), New: newC15lc(n, maxConns), Depth: depth, Deadline: seqmc.Deadline()})
		res.Add(st, vs)
	}
	// every count vector in {0..3}^N for N <= 5
	for n := 1; n <= 5; n++ {
		total := 1
		for i := 0; i < n; i++ {
			total *= 4
		}
		for code := 0; code < total; code++ {
			lb := new(leastConnectionsLoadBalancer)
			els := c15Loops(lb, n)
			vec := make([]int, n)
			x := code
			fd := 3
			for i := 0; i < n; i++ {
				vec[i] = x % 4
				x /= 4
				for j := 0; j < vec[i]; j++ {
					els[i].connections.addConn(&conn{fd: fd}, i)
					fd++
				}
			}
			el, p := safeNext(lb, nil)
			evals++
			distinct++
			if p != "" {
				add("lc:panic", "least-connections next() panicked: "+p, vec...)
				continue
			}
			i := indexOf(els, el)
			if i < 0 {
				add("lc:foreign", "least-connections returned an unregistered loop", vec...)
				continue
			}
			for j := range vec {
				if vec[j] < vec[i] {
					add("lc:notminimal", fmt.Sprintf("least-connections chose loop %d for counts %v", i, vec), vec...)
				}
			}
		}
	}

	// Source-Addr-Hash: N in 1..256 x address alphabet
	addrs := c15Addresses()
	for n := 1; n <= 256; n++ {
		lb := new(sourceAddrHashLoadBalancer)
		els := c15Loops(lb, n)
		byStr := map[string]int{}
		for ai, a := range addrs {
			el, p := safeNext(lb, a)
			evals++
			if p != "" {
				add("hash:panic", fmt.Sprintf("source-addr-hash next(%q) panicked with %d loops: %s", a.String(), n, p), n, ai)
				continue
			}
			i := indexOf(els, el)
			if i < 0 {
				add("hash:foreign", fmt.Sprintf("source-addr-hash returned an unregistered loop for %q (N=%d)", a.String(), n), n, ai)
				continue
			}
			el2, _ := safeNext(lb, a)
			if el2 != el {
				add("hash:unstable", fmt.Sprintf("source-addr-hash: two calls for %q disagree (N=%d)", a.String(), n), n, ai)
			}
			// an equal string built from a different object
			var b net.Addr = strAddr(a.String())
			if el3, _ := safeNext(lb, b); el3 != el {
				add("hash:notpure", fmt.Sprintf("source-addr-hash: equal address strings %q map to different loops (N=%d)", a.String(), n), n, ai)
			}
			if j, ok := byStr[a.String()]; ok && j != i {
				add("hash:notpure", fmt.Sprintf("source-addr-hash: %q mapped to loops %d and %d", a.String(), j, i), n, ai)
			}
			byStr[a.String()] = i
		}
		distinct += int64(len(addrs))
	}
	res.Violations = append(res.Violations, viol...)
	res.Evaluations += evals
	res.Distinct += distinct
	res.Exhaustive = len(res.Caps) == 0
	res.Bounds = []string{"round-robin: every N in 1..256, 3N consecutive accepts", fmt.Sprintf("least-connections: BFS over accept/close sequences, N<=%d, depth %d, <=%d connections; every count vector in {0..3}^N for N<=5", maxN, depth, maxConns),
		fmt.Sprintf("source-addr-hash: every N in 1..256 x %d addresses (IPv4, IPv6 with zones, unix paths, empty string, 300-byte path)", len(addrs))}
	res.Samples = []string{"round-robin N=7: 21 accepts", "least-connections N=3: accept; accept; close(0); accept", "source-addr-hash N=256: [fe80::1%eth0]:80"}
	if rp := seqmc.ReplayFile(); rp != "" {
		v, _ := seqmc.LoadViolation(rp)
		for _, x := range res.Violations {
			if x.Sig == v.Sig {
				fmt.Printf("REPLAY-VIOLATION property=C15 sig=%s %s\n", x.Sig, x.Msg)
				t.Fail()
				return
			}
		}
		fmt.Println("REPLAY-OK property=C15")
		return
	}
	if err := res.Write(); err != nil {
		t.Fatal(err)
	}
}
