//go:build verifmc

package gnet

// C04 (callback lifecycle) and C07 (descriptor ownership) share one family of connection
// histories; each property evaluates its own monitor on every explored execution.

import (
	"bytes"
	"fmt"
	"os"
	"strings"
	"testing"

	"golang.org/x/sys/unix"

	"github.com/panjf2000/gnet/v2/internal/verifmc/mcsys"
	"github.com/panjf2000/gnet/v2/internal/verifmc/sched"
	"github.com/panjf2000/gnet/v2/internal/verifmc/seqmc"
)

type lifeCfg struct {
	name    string
	tcp     bool // TCP on loopback with SO_REUSEPORT: the loops accept inline ("run" mode instead of reactors)
	et      bool
	loops   int
	wantErr []string // per connection id: "nil", "nonnil", "any"
	build   func(w *world, c *lifeCfg)
}

// ctl spawns the controller thread: waits until every peer thread has finished, lets the system
// go quiescent, compares CountConnections with the monitors, then stops the engine.
func (w *world) ctl(peersDone *int, npeers int, extra func()) {
	sched.Go("ctl", func() {
		w.waitBoot()
		sched.BlockUntil(func() bool { return *peersDone >= npeers })
		sched.WaitIdle()
		w.countCheck("before-stop")
		if extra != nil {
			extra()
		}
		if err := w.stopEngine(); err != nil {
			w.violate("stop:err", "Engine.Stop returned %v", err)
		}
	})
}

func (w *world) countCheck(where string) {
	open := 0
	for _, ci := range w.conns {
		if ci.opens > 0 && ci.closes == 0 {
			open++
		}
	}
	if n := w.eng.CountConnections(); n != open {
		w.violate("count:mismatch", "%s: no callback in flight, CountConnections()=%d but %d connections are opened and not closed", where, n, open)
	}
}

func (w *world) peerThread(name string, done *int, f func(p *peer)) *peer {
	p := w.newPeer()
	sched.Go(name, func() {
		defer func() { *done++ }()
		w.waitBoot()
		f(p)
	})
	return p
}

func echoTraffic(w *world, ci *connInfo) Action {
	b, _ := ci.c.Next(-1)
	ci.consumed = append(ci.consumed, b...)
	_, _ = ci.c.Write(b)
	return None
}

func lifeConfigs() []lifeCfg {
	var cfgs []lifeCfg
	add := func(name string, wantErr []string, build func(w *world, c *lifeCfg)) {
		for _, et := range []bool{false, true} {
			n := name + map[bool]string{false: "/LT", true: "/ET"}[et]
			cfgs = append(cfgs, lifeCfg{name: n, et: et, loops: 1, wantErr: wantErr, build: build})
		}
	}
	// 1. peer closes after an echo round trip
	add("peer-close", []string{"nonnil"}, func(w *world, c *lifeCfg) {
		w.onTraffic = echoTraffic
		w.script = func(w *world) {
			done := 0
			w.peerThread("peer", &done, func(p *peer) {
				if p.connect() {
					p.send([]byte("ab"))
					p.recv(2)
					p.close()
				}
			})
			w.ctl(&done, 1, nil)
		}
	})
	// 2. Close action from OnTraffic
	add("action-close-traffic", []string{"nil"}, func(w *world, c *lifeCfg) {
		w.onTraffic = func(w *world, ci *connInfo) Action { _, _ = ci.c.Discard(-1); return Close }
		w.script = func(w *world) {
			done := 0
			w.peerThread("peer", &done, func(p *peer) {
				if p.connect() {
					p.send([]byte("x"))
					p.recvEOF()
					p.close()
				}
			})
			w.ctl(&done, 1, nil)
		}
	})
	// 3. Close action from OnOpen, with a reply
	add("action-close-open", []string{"nil"}, func(w *world, c *lifeCfg) {
		w.onOpen = func(w *world, ci *connInfo) ([]byte, Action) { return []byte("hi"), Close }
		w.script = func(w *world) {
			done := 0
			p0 := w.peerThread("peer", &done, func(p *peer) {
				if p.connect() {
					p.recvEOF()
					p.close()
				}
			})
			w.ctl(&done, 1, func() {
				if string(p0.got) != "hi" {
					w.violate("open:reply", "peer received %q instead of the OnOpen reply before the close", p0.got)
				}
			})
		}
	})
	// 3b. the connection is closed while OnOpen is still running: EventLoop.Close from inside OnOpen ...
	add("elclose-in-open", []string{"nil"}, func(w *world, c *lifeCfg) {
		w.onOpen = func(w *world, ci *connInfo) ([]byte, Action) {
			_ = ci.c.EventLoop().Close(ci.c)
			return nil, None
		}
		w.script = func(w *world) {
			done := 0
			w.peerThread("peer", &done, func(p *peer) {
				if p.connect() {
					p.recvEOF()
					p.close()
				}
			})
			w.ctl(&done, 1, nil)
		}
	})
	// ... or a Write inside OnOpen that fails because the peer has already gone
	add("write-fail-in-open", []string{"nonnil"}, func(w *world, c *lifeCfg) {
		w.onOpen = func(w *world, ci *connInfo) ([]byte, Action) {
			sched.BlockUntil(func() bool { return w.peers[0].fd < 0 && w.peers[0].connected })
			_, _ = ci.c.Write(make([]byte, 4096))
			return nil, None
		}
		w.script = func(w *world) {
			done := 0
			w.peerThread("peer", &done, func(p *peer) {
				if p.connect() {
					p.connected = true
					p.close()
				}
			})
			w.ctl(&done, 1, nil)
		}
	})
	// 4. asynchronous c.Close() requested from inside OnTraffic
	add("async-close-in-traffic", []string{"nil"}, func(w *world, c *lifeCfg) {
		w.onTraffic = func(w *world, ci *connInfo) Action {
			_, _ = ci.c.Discard(-1)
			_ = ci.c.Close()
			return None
		}
		w.script = func(w *world) {
			done := 0
			w.peerThread("peer", &done, func(p *peer) {
				if p.connect() {
					p.send([]byte("x"))
					p.recvEOF()
					p.close()
				}
			})
			w.ctl(&done, 1, nil)
		}
	})
	// 5. EventLoop.Close(c) inside OnTraffic while more data may be pending
	add("elclose-in-traffic", []string{"nil"}, func(w *world, c *lifeCfg) {
		w.onTraffic = func(w *world, ci *connInfo) Action {
			_, _ = ci.c.Discard(-1)
			_ = ci.c.EventLoop().Close(ci.c)
			return None
		}
		w.script = func(w *world) {
			done := 0
			w.peerThread("peer", &done, func(p *peer) {
				if p.connect() {
					p.send([]byte("x"))
					p.send([]byte("y"))
					p.recvEOF()
					p.close()
				}
			})
			w.ctl(&done, 1, nil)
		}
	})
	// 6. Write fails inside OnTraffic (the peer has gone without reading)
	add("write-fail-in-traffic", []string{"nonnil"}, func(w *world, c *lifeCfg) {
		w.onTraffic = func(w *world, ci *connInfo) Action {
			_, _ = ci.c.Discard(-1)
			_, _ = ci.c.Write(make([]byte, 4096))
			return None
		}
		w.script = func(w *world) {
			done := 0
			w.peerThread("peer", &done, func(p *peer) {
				if p.connect() {
					p.send([]byte("x"))
					p.close()
				}
			})
			w.ctl(&done, 1, nil)
		}
	})
	// 7. a user goroutine closes the connection while the peer closes it too
	add("user-close-vs-peer-close", []string{"any"}, func(w *world, c *lifeCfg) {
		w.onTraffic = echoTraffic
		w.script = func(w *world) {
			done := 0
			w.peerThread("peer", &done, func(p *peer) {
				if p.connect() {
					p.send([]byte("x"))
					p.recv(1)
					p.close()
				}
			})
			cbs := 0
			sched.Go("user", func() {
				defer func() { done++ }()
				sched.BlockUntil(func() bool { return len(w.conns) > 0 })
				c := w.conns[0].c
				_ = c.CloseWithCallback(func(Conn, error) error { cbs++; return nil })
			})
			w.ctl(&done, 2, func() {
				if cbs != 1 {
					w.violate("async:cbcount", "CloseWithCallback callback ran %d times", cbs)
				}
			})
		}
	})
	// 8. Wake and AsyncWrite racing with a peer close
	add("wake-asyncwrite-vs-peer-close", []string{"nonnil"}, func(w *world, c *lifeCfg) {
		w.onTraffic = func(w *world, ci *connInfo) Action { _, _ = ci.c.Discard(-1); return None }
		w.script = func(w *world) {
			done := 0
			w.peerThread("peer", &done, func(p *peer) {
				if p.connect() {
					p.send([]byte("x"))
					p.close()
				}
			})
			wakeCb, awCb := 0, 0
			var awErr error
			sched.Go("user", func() {
				defer func() { done++ }()
				sched.BlockUntil(func() bool { return len(w.conns) > 0 })
				c := w.conns[0].c
				_ = c.Wake(func(Conn, error) error { wakeCb++; return nil })
				_ = c.AsyncWrite([]byte("zz"), func(_ Conn, err error) error { awCb++; awErr = err; return nil })
			})
			w.ctl(&done, 2, func() {
				if wakeCb != 1 || awCb != 1 {
					w.violate("async:cbcount", "Wake callback ran %d times, AsyncWrite callback %d times (want 1 each; last AsyncWrite error %v)", wakeCb, awCb, awErr)
				}
			})
		}
	})
	// 9. late requests on a closed connection whose descriptor number has been re-used
	add("late-ops-fd-reuse", []string{"nonnil", "any"}, func(w *world, c *lifeCfg) {
		w.onTraffic = func(w *world, ci *connInfo) Action { _, _ = ci.c.Discard(-1); return None }
		w.script = func(w *world) {
			done := 0
			var pB *peer
			w.peerThread("peer", &done, func(p *peer) {
				if !p.connect() {
					return
				}
				p.send([]byte("a"))
				sched.BlockUntil(func() bool { return len(w.conns) > 0 && w.conns[0].traffics > 0 })
				p.close()
				sched.BlockUntil(func() bool { return w.conns[0].closes > 0 })
				// connection B: the kernel hands out the lowest free number, i.e. A's old one
				pB = w.newPeer()
				if !pB.connect() {
					return
				}
				sched.BlockUntil(func() bool { return len(w.conns) > 1 })
			})
			awCb, closeCb, wakeCb := 0, 0, 0
			var awErr error
			sched.Go("user", func() {
				defer func() { done++ }()
				sched.BlockUntil(func() bool { return len(w.conns) > 1 })
				a, b := w.conns[0], w.conns[1]
				if a.fd != b.fd {
					w.obs = append(w.obs, "no-fd-reuse")
				}
				tB := b.traffics
				_ = a.c.AsyncWrite([]byte("LATE"), func(_ Conn, err error) error { awCb++; awErr = err; return nil })
				_ = a.c.Wake(func(Conn, error) error { wakeCb++; return nil })
				_ = a.c.CloseWithCallback(func(Conn, error) error { closeCb++; return nil })
				_ = a.c.Close()
				sched.WaitIdle()
				if awCb != 1 || awErr == nil {
					w.violate("late:asyncwrite", "AsyncWrite on a closed connection: callback ran %d times with error %v (want once with a closed-connection error)", awCb, awErr)
				}
				if b.closes > 0 {
					w.violate("late:wrongconn", "a late Close on connection #0 closed connection #1, which re-uses descriptor %d", b.fd)
				}
				if b.traffics != tB {
					w.violate("late:wrongconn", "a late Wake on connection #0 caused OnTraffic on connection #1, which re-uses descriptor %d", b.fd)
				}
				pB.recvAvail()
				if len(pB.got) > 0 {
					w.violate("late:wrongconn", "a late AsyncWrite on connection #0 delivered %q to the peer of connection #1", pB.got)
				}
				pB.close()
			})
			w.ctl(&done, 2, nil)
		}
	})
	// 9b. a read deferred by the framework itself (ET: the per-event chunk limit is reached with the
	// read buffer full, so eventloop.read0 is queued as a task) for a connection that is closed before
	// the task runs, while a new connection takes over its descriptor number
	add("queued-read-fd-reuse", []string{"nonnil", "any"}, func(w *world, c *lifeCfg) {
		w.opts = append(w.opts, WithReadBufferCap(1024), WithEdgeTriggeredIOChunk(1024))
		bSent, aClosed := false, false
		w.onTraffic = func(w *world, ci *connInfo) Action {
			b, _ := ci.c.Next(-1)
			ci.consumed = append(ci.consumed, b...)
			if ci.id == 0 && ci.traffics == 1 {
				// hold the loop inside A's first callback until A's peer has closed: the FIN is then
				// handled in the same batch as, and before, the queued read
				// (SO_REUSEPORT mode, where the loop accepts inline: B is already waiting in the listen
				// queue too, so that it is accepted between A's close and the queued read)
				sched.BlockUntil(func() bool { return aClosed && (!c.tcp || bSent) })
			}
			return None
		}
		w.script = func(w *world) {
			if c.tcp {
				sched.SetSettle(6) // loopback TCP delivers asynchronously
			}
			done := 0
			msgB := []byte("data-of-B")
			w.peerThread("peerA", &done, func(p *peer) {
				if !p.connect() {
					return
				}
				a := make([]byte, 1024)
				for i := range a {
					a[i] = 'a'
				}
				p.send(a)
				sched.BlockUntil(func() bool { return len(w.conns) > 0 && w.conns[0].traffics > 0 })
				p.close()
				aClosed = true
			})
			w.peerThread("peerB", &done, func(p *peer) {
				if c.tcp {
					sched.BlockUntil(func() bool { return aClosed })
				} else {
					sched.BlockUntil(func() bool { return len(w.conns) > 0 && w.conns[0].closes > 0 })
				}
				if !p.connect() {
					return
				}
				p.send(msgB)
				bSent = true
				sched.BlockUntil(func() bool { return len(w.conns) > 1 && w.conns[1].traffics > 0 })
				sched.WaitIdle()
				a, b := w.conns[0], w.conns[1]
				if a.fd != b.fd {
					w.obs = append(w.obs, "no-fd-reuse")
				}
				if !bytes.Equal(b.consumed, msgB) {
					w.violate("late:wrongconn", "connection #1 (descriptor %d, re-used from #0: %v) was offered %q, its peer sent %q; connection #0 consumed %d bytes of the 1024 its peer sent", b.fd, a.fd == b.fd, b.consumed, msgB, len(a.consumed))
				}
				p.close()
			})
			w.ctl(&done, 2, nil)
		}
	})
	// 9c. the application holds a duplicate of the connection's descriptor (Conn.Dup) across the close:
	// the open file description outlives the framework's descriptor, so the poller registration has to
	// be removed explicitly; otherwise the loop keeps being woken for a descriptor it no longer owns
	add("dup-held-across-close", []string{"nonnil"}, func(w *world, c *lifeCfg) {
		dupFd := -1
		w.onTraffic = func(w *world, ci *connInfo) Action {
			_, _ = ci.c.Discard(-1)
			if dupFd < 0 {
				if fd, err := ci.c.Dup(); err == nil {
					mcsys.Transfer(fd, "dup-for-user")
					dupFd = fd
				}
			}
			return None
		}
		w.script = func(w *world) {
			done := 0
			w.peerThread("peer", &done, func(p *peer) {
				if p.connect() {
					p.send([]byte("x"))
					sched.BlockUntil(func() bool { return len(w.conns) > 0 && w.conns[0].traffics > 0 })
					p.send([]byte("more"))
					p.close()
				}
			})
			w.ctl(&done, 1, nil)
			sched.Go("dup-owner", func() {
				sched.BlockUntil(func() bool { return w.runDone })
				if dupFd >= 0 {
					_ = unix.Close(dupFd)
					mcsys.Forget(dupFd)
				}
			})
		}
	})
	// 10. engine shutdown with two idle connections
	add("shutdown-two-idle", []string{"nil", "nil"}, func(w *world, c *lifeCfg) {
		w.script = func(w *world) {
			done := 0
			for i := 0; i < 2; i++ {
				w.peerThread(fmt.Sprintf("peer%d", i), &done, func(p *peer) {
					if p.connect() {
						sched.BlockUntil(func() bool { return len(w.conns) >= 2 })
					}
				})
			}
			w.ctl(&done, 2, nil)
			sched.Go("closer", func() {
				sched.BlockUntil(func() bool { return w.runDone })
				for _, p := range w.peers {
					p.recvAvail()
					p.close()
				}
			})
		}
	})
	// 11. Close action returned from OnClose (must not produce a second OnClose)
	add("close-action-from-onclose", []string{"nonnil"}, func(w *world, c *lifeCfg) {
		w.onClose = func(w *world, ci *connInfo, err error) Action { return Close }
		w.script = func(w *world) {
			done := 0
			w.peerThread("peer", &done, func(p *peer) {
				if p.connect() {
					p.send([]byte("x"))
					p.close()
				}
			})
			w.ctl(&done, 1, nil)
		}
	})
	// 11b. a second close cause arrives while OnClose is running: EventLoop.Close(c) inside OnClose
	add("elclose-inside-onclose", []string{"nonnil"}, func(w *world, c *lifeCfg) {
		w.onClose = func(w *world, ci *connInfo, err error) Action {
			_ = ci.c.EventLoop().Close(ci.c)
			_ = ci.c.Close()
			return None
		}
		w.script = func(w *world) {
			done := 0
			w.peerThread("peer", &done, func(p *peer) {
				if p.connect() {
					p.send([]byte("x"))
					p.close()
				}
			})
			w.ctl(&done, 1, nil)
		}
	})
	// 11c. ... a Write that fails inside OnClose (the peer has reset the connection)
	add("write-inside-onclose", []string{"nonnil"}, func(w *world, c *lifeCfg) {
		w.onTraffic = func(w *world, ci *connInfo) Action { _, _ = ci.c.Discard(-1); return None }
		w.onClose = func(w *world, ci *connInfo, err error) Action {
			_, _ = ci.c.Write([]byte("goodbye"))
			return None
		}
		w.script = func(w *world) {
			done := 0
			w.peerThread("peer", &done, func(p *peer) {
				if p.connect() {
					p.send([]byte("x"))
					p.close()
				}
			})
			w.ctl(&done, 1, nil)
		}
	})
	// 11d. relay pattern: closing one connection closes the other from inside OnClose, and vice versa
	add("relay-close", []string{"any", "any"}, func(w *world, c *lifeCfg) {
		w.onTraffic = func(w *world, ci *connInfo) Action { _, _ = ci.c.Discard(-1); return None }
		w.onClose = func(w *world, ci *connInfo, err error) Action {
			for _, o := range w.conns {
				if o != ci {
					_ = o.c.EventLoop().Close(o.c)
				}
			}
			return None
		}
		w.script = func(w *world) {
			done := 0
			for i := 0; i < 2; i++ {
				i := i
				w.peerThread(fmt.Sprintf("peer%d", i), &done, func(p *peer) {
					if p.connect() {
						sched.BlockUntil(func() bool { return len(w.conns) >= 2 })
						if i == 0 {
							p.send([]byte("x"))
							p.close()
						}
					}
				})
			}
			w.ctl(&done, 2, nil)
			w.closerAfterRun()
		}
	})
	// 12. half close: the peer shuts down its writing side and still receives the echo
	add("peer-half-close", []string{"nonnil"}, func(w *world, c *lifeCfg) {
		w.onTraffic = echoTraffic
		w.script = func(w *world) {
			done := 0
			p0 := w.peerThread("peer", &done, func(p *peer) {
				if p.connect() {
					p.send([]byte("abc"))
					_ = mcsys.PShutdown(p.fd, 1)
					p.recvEOF()
					p.close()
				}
			})
			w.ctl(&done, 1, func() {
				if string(p0.got) != "abc" {
					w.violate("halfclose:echo", "peer received %q after half-close, want the echo \"abc\"", p0.got)
				}
			})
		}
	})
	// two loops: connections on different loops closed from each other's callbacks
	for _, et := range []bool{false, true} {
		et := et
		cfgs = append(cfgs, lifeCfg{name: "cross-loop-close" + map[bool]string{false: "/LT", true: "/ET"}[et], et: et, loops: 2, wantErr: []string{"any", "any"}, build: func(w *world, c *lifeCfg) {
			w.onTraffic = func(w *world, ci *connInfo) Action {
				_, _ = ci.c.Discard(-1)
				for _, o := range w.conns {
					if o != ci && o.closes == 0 {
						_ = o.c.Close()
					}
				}
				return None
			}
			w.script = func(w *world) {
				done := 0
				for i := 0; i < 2; i++ {
					w.peerThread(fmt.Sprintf("peer%d", i), &done, func(p *peer) {
						if p.connect() {
							sched.BlockUntil(func() bool { return len(w.conns) >= 2 })
							p.send([]byte("x"))
						}
					})
				}
				w.ctl(&done, 2, nil)
				sched.Go("closer", func() {
					sched.BlockUntil(func() bool { return w.runDone })
					for _, p := range w.peers {
						p.recvAvail()
						p.close()
					}
				})
			}
		}})
	}
	// the same histories over TCP with SO_REUSEPORT (loops accept inline); loopback TCP timing can
	// make replays diverge, such subtrees are dropped and reported in the evidence
	var tcp []lifeCfg
	for _, c := range cfgs {
		// (as built: no scenario is selected. Loopback TCP delivers data and FINs asynchronously, so the
		// per-scenario expectations about who closed first and the scheduler's "nobody is enabled"
		// test are not sound there; the machinery is kept for experiments with MC_TCP=1.)
		picks := []string{"queued-read-fd-reuse/"} // needs inline accepts; written for asynchronous delivery
		if os.Getenv("MC_TCP") == "1" {
			picks = []string{"queued-read-fd-reuse/", "peer-close/", "action-close-traffic/", "elclose-in-traffic/", "write-fail-in-traffic/", "relay-close/"}
		}
		for _, pick := range picks {
			if strings.HasPrefix(c.name, pick) {
				t := c
				t.name = "tcp-reuseport/" + c.name
				t.tcp = true
				tcp = append(tcp, t)
			}
		}
	}
	return append(cfgs, tcp...)
}

func lifeWorld(c lifeCfg) *world {
	w := newWorld(c.name)
	w.opts = []Option{WithNumEventLoop(c.loops)}
	if c.et {
		w.opts = append(w.opts, WithEdgeTriggeredIO(true))
	}
	if c.tcp {
		a := &unix.SockaddrInet4{Addr: [4]byte{127, 0, 0, 1}}
		w.addr = fmt.Sprintf("tcp://127.0.0.1:%d", freeTCPPort(a, false))
		w.opts = append(w.opts, WithReusePort(true), WithReuseAddr(true))
	}
	cc := c
	c.build(w, &cc)
	return w
}

// lifecycleCheck is the C04 monitor.
func lifecycleCheck(c lifeCfg) func(w *world, out *sched.Outcome) (string, string) {
	return func(w *world, out *sched.Outcome) (string, string) {
		for _, ci := range w.conns {
			if ci.opens > 1 {
				return fmt.Sprintf("connection #%d saw OnOpen %d times", ci.id, ci.opens), "life:open-twice"
			}
			if ci.closes > 1 {
				return fmt.Sprintf("connection #%d saw OnClose %d times", ci.id, ci.closes), "life:close-twice"
			}
			if len(ci.afterClose) > 0 {
				return fmt.Sprintf("connection #%d saw %s after its OnClose / before its OnOpen", ci.id, strings.Join(ci.afterClose, ",")), "life:after-close"
			}
			if ci.closes > 0 && ci.opens == 0 {
				return fmt.Sprintf("connection #%d saw OnClose without OnOpen", ci.id), "life:close-without-open"
			}
			if w.runDone && ci.opens > 0 && ci.closes == 0 {
				return fmt.Sprintf("connection #%d was opened but Run returned without its OnClose", ci.id), "life:no-close"
			}
			if ci.closes == 1 && ci.id < len(c.wantErr) {
				switch c.wantErr[ci.id] {
				case "nil":
					if ci.closeErr != nil {
						return fmt.Sprintf("connection #%d: locally requested close reported error %v", ci.id, ci.closeErr), "life:err-nonnil"
					}
				case "nonnil":
					if ci.closeErr == nil {
						return fmt.Sprintf("connection #%d: peer/I-O induced close reported a nil error", ci.id), "life:err-nil"
					}
				}
			}
		}
		if !w.runDone {
			return fmt.Sprintf("Run has not returned (end=%s, blocked=%v)", out.End, out.Blocked), "life:run-hangs"
		}
		if w.runErr != nil {
			return fmt.Sprintf("Run returned %v", w.runErr), "life:run-err"
		}
		if len(w.afterRun) > 0 {
			return "callbacks after Run returned: " + strings.Join(w.afterRun, ", "), "life:after-run"
		}
		return "", ""
	}
}

// fdCheck is the C07 monitor.
func fdCheck(w *world, out *sched.Outcome) (string, string) {
	if mcsys.L != nil && len(mcsys.L.Violations) > 0 {
		return ledgerFirst("")
	}
	if w.runDone {
		if open := mcsys.OpenFrameworkFds(); len(open) > 0 {
			// classify the first leaked descriptor: what it is and whether it was ever registered with a poller
			kind := open[0][strings.IndexByte(open[0], '(')+1 : len(open[0])-1]
			var fd int
			fmt.Sscanf(open[0], "%d", &fd)
			registered := false
			for _, e := range mcsys.L.Events {
				if e.Op == "epoll_ctl_add" && e.Fd == fd && e.Err == "" {
					registered = true
				}
				if (e.Op == "accept4" || e.Op == "socket" || e.Op == "fcntl" || e.Op == "dup") && e.N == fd && e.Err == "" {
					registered = false // a new incarnation of the number
				}
			}
			if !registered {
				kind += "-never-registered"
			}
			return fmt.Sprintf("descriptors created by the framework are still open after Run returned: %v", open), "fd:leak:" + kind
		}
		if strings.HasPrefix(w.addr, "unix://") {
			if _, err := os.Stat(strings.TrimPrefix(w.addr, "unix://")); err == nil {
				return "the unix-socket file still exists after Run returned", "fd:sockfile"
			}
		}
	}
	return "", ""
}

func runEngineCheck(t *testing.T, prop string, cfgs []sched.Config, names func(string) *sched.Config, boundsNote string) {
	runEngineCheckExtra(t, prop, cfgs, names, boundsNote, nil)
}

func runEngineCheckExtra(t *testing.T, prop string, cfgs []sched.Config, names func(string) *sched.Config, boundsNote string, extra func(res *seqmc.Result)) {
	if rp := seqmc.ReplayFile(); rp != "" {
		v, err := sched.LoadViolation(rp)
		if err != nil {
			t.Fatal(err)
		}
		if c := names(v.Scenario); c != nil {
			msg, sig, trace := sched.ReplaySchedule(*c, v.Schedule)
			if msg != "" {
				fmt.Printf("REPLAY-VIOLATION property=%s sig=%s %s\n%s\n", prop, sig, msg, strings.Join(trace, "\n"))
				t.Fail()
				return
			}
		}
		fmt.Printf("REPLAY-OK property=%s\n", prop)
		return
	}
	si, sn := seqmc.Shard()
	var res seqmc.Result
	res.Property = prop
	light := os.Getenv("MC_LIGHT") == "1"
	if only := os.Getenv("MC_ONLY"); only != "" {
		// development aid: restrict the run to the scenarios whose name contains MC_ONLY
		var keep []sched.Config
		for _, c := range cfgs {
			if strings.Contains(c.Name, only) {
				keep = append(keep, c)
			}
		}
		cfgs = keep
	}
	for i, c := range cfgs {
		c.Deadline = sched.FairDeadline(c.Deadline, i, len(cfgs))
		if light && len(c.Bounds) > 3 {
			// build-variant units of the quick tier: the first three bounds of every scenario
			c.Bounds = c.Bounds[:3]
		}
		// every shard explores every scenario, but only its share of the level-2 subtrees
		c.ShardI, c.ShardN = si, sn
		st, vs := sched.Explore(c)
		if st.Steps == 0 && si == 0 && st.Capped == "" {
			t.Fatal("vacuous: no scheduling points")
		}
		res.AddSched(st, vs)
	}
	if extra != nil {
		extra(&res)
	}
	res.Exhaustive = len(res.Caps) == 0
	res.Bounds = []string{boundsNote}
	if err := res.Write(); err != nil {
		t.Fatal(err)
	}
}

func engineBounds(quickPB, thoroughPB, db int) []sched.Bound {
	pb := quickPB
	if seqmc.Tier() == "thorough" {
		pb = thoroughPB
	}
	pb = sched.EnvInt("MC_PB", pb)
	db = sched.EnvInt("MC_DB", db)
	var bounds []sched.Bound
	for b := 0; b <= pb; b++ {
		bounds = append(bounds, sched.Bound{PB: b, DB: db})
	}
	return bounds
}

var lifeHeavy = []string{"late-ops-fd-reuse", "shutdown-two-idle", "user-close-vs-peer-close", "wake-asyncwrite-vs-peer-close", "cross-loop-close", "relay-close"}

func lifeSchedConfigs(prop string, check func(lifeCfg) func(*world, *sched.Outcome) (string, string)) ([]sched.Config, func(string) *sched.Config) {
	var out []sched.Config
	for _, c := range lifeConfigs() {
		c := c
		bounds := engineBounds(2, 3, 0)
		for _, h := range lifeHeavy {
			if strings.HasPrefix(c.name, h) || strings.HasPrefix(c.name, "tcp-reuseport/") {
				bounds = engineBounds(1, 2, 0) // 6-7 threads: one schedule deviation in the quick tier
			}
		}
		out = append(out, sched.Config{Property: prop, Name: c.name, Bounds: bounds, Horizon: 20000, Deadline: seqmc.Deadline(), DelayBounded: true, TolerateNondeterminism: c.tcp, New: func() sched.Scenario {
			w := lifeWorld(c)
			w.checks = append(w.checks, checkEnd, check(c))
			return w
		}})
	}
	return out, func(name string) *sched.Config {
		for i := range out {
			if out[i].Name == name {
				return &out[i]
			}
		}
		return nil
	}
}

func clientConfigs(prop string) []sched.Config {
	var out []sched.Config
	for _, et := range []bool{false, true} {
		et := et
		m := map[bool]string{false: "LT", true: "ET"}[et]
		out = append(out,
			sched.Config{Property: prop, Name: "client-udp/" + m, Bounds: engineBounds(2, 3, 0), Horizon: 20000, Deadline: seqmc.Deadline(), DelayBounded: true, New: func() sched.Scenario { return clientUDPWorld(et) }},
			sched.Config{Property: prop, Name: "client-udp-empty-datagram/" + m, Bounds: engineBounds(1, 2, 0), Horizon: 20000, Deadline: seqmc.Deadline(), DelayBounded: true, New: func() sched.Scenario { return clientUDPEmptyWorld(et) }},
			sched.Config{Property: prop, Name: "client-udp-late-ops/" + m, Bounds: engineBounds(2, 3, 0), Horizon: 20000, Deadline: seqmc.Deadline(), DelayBounded: true, New: func() sched.Scenario { return clientUDPLateWorld(et) }},
			sched.Config{Property: prop, Name: "client-enroll-fault/" + m, Bounds: []sched.Bound{{PB: 0, DB: 0}, {PB: 0, DB: 1}, {PB: 1, DB: 1}}, Horizon: 40000, Deadline: seqmc.Deadline(), DelayBounded: true, New: func() sched.Scenario { return clientEnrollFaultWorld(et) }},
			sched.Config{Property: prop, Name: "client-two-loops/" + m, Bounds: engineBounds(1, 2, 0), Horizon: 20000, Deadline: seqmc.Deadline(), DelayBounded: true, New: func() sched.Scenario { return clientTwoLoopWorld(et) }},
			sched.Config{Property: prop, Name: "client-stop/" + m, Bounds: engineBounds(2, 3, 0), Horizon: 20000, Deadline: seqmc.Deadline(), DelayBounded: true, New: func() sched.Scenario {
				sc := clientStopWorld(et).(*clientWorld)
				sc.checks = append(sc.checks, fdCheck)
				return sc
			}})
	}
	return out
}

func TestMC_C04(t *testing.T) {
	cfgs, byName0 := lifeSchedConfigs("C04", lifecycleCheck)
	cfgs = append(cfgs, clientConfigs("C04")...)
	cfgs = append(cfgs, fatalAcceptConfigs("C04")...)
	byName := func(name string) *sched.Config {
		for i := range cfgs {
			if cfgs[i].Name == name {
				return &cfgs[i]
			}
		}
		return byName0(name)
	}
	runEngineCheck(t, "C04", cfgs, byName, fmt.Sprintf("%d connection histories x {LT,ET} (1-2 loops, unix sockets), every interleaving of engine, peer and user threads up to the preemption bound listed per scenario", len(cfgs)))
}

func TestMC_C07(t *testing.T) {
	cfgs, _ := lifeSchedConfigs("C07", func(lifeCfg) func(*world, *sched.Outcome) (string, string) { return fdCheck })
	// the shutdown scenarios of C06 (shutdown racing with accepts, pending output, tickers, two
	// listeners, clients) evaluated with the descriptor ledger
	for _, c := range shutConfigs() {
		c := c
		bounds := engineBounds(2, 3, 0)
		if c.heavy {
			bounds = engineBounds(1, 2, 0)
		}
		cfgs = append(cfgs, sched.Config{Property: "C07", Name: "shutdown/" + c.name, Bounds: bounds, Horizon: 20000, Deadline: seqmc.Deadline(), DelayBounded: true, New: func() sched.Scenario {
			w := shutWorld(c)
			w.checks = append(w.checks, checkEnd, fdCheck)
			return w
		}})
	}
	cfgs = append(cfgs, clientConfigs("C07")...)
	cfgs = append(cfgs, fatalAcceptConfigs("C07")...)
	// a start that fails half-way (C18's start-up faults) must not leave descriptors behind either
	if all, _ := faultSchedConfigs(); true {
		for _, c := range all {
			if strings.HasPrefix(c.Name, "startup-fault/") {
				c.Property = "C07"
				cfgs = append(cfgs, c)
			}
		}
	}
	// failed engine start (resource exhaustion, failed registrations): nothing may leak or be closed twice
	for _, loops := range []int{1, 2} {
		loops := loops
		name := fmt.Sprintf("startup-fault/%d-loops", loops)
		cfgs = append(cfgs, sched.Config{Property: "C07", Name: name, Bounds: []sched.Bound{{PB: 0, DB: 0}, {PB: 0, DB: 1}, {PB: 1, DB: 1}}, Horizon: 40000, Deadline: seqmc.Deadline(), DelayBounded: true,
			New: func() sched.Scenario { w := startupFaultWorld(loops, false); w.name = name; return w }})
	}
	byName := func(name string) *sched.Config {
		for i := range cfgs {
			if cfgs[i].Name == name {
				return &cfgs[i]
			}
		}
		return nil
	}
	runEngineCheck(t, "C07", cfgs, byName, fmt.Sprintf("%d connection histories x {LT,ET}: descriptor ledger (use after close, double close, foreign close, leak at return of Run, unix-socket file) on every explored execution", len(cfgs)))
}
