//go:build verifmc

package gnet

// Common closed system for the engine-level properties (DESIGN.md §5): the REAL gnet engine
// (instrumented by the rewriter) on real AF_UNIX / loopback sockets under the cooperative
// scheduler. Threads: `main` (calls gnet.Run / Client.Start...), the event loops spawned through
// the errgroup shim, peer threads (raw non-blocking sockets, one system call per scheduling
// point), optional user threads calling the concurrency-safe API. The EventHandler is harness
// code; monitors record every callback and are evaluated by each property's own oracle.

import (
	"context"
	"fmt"
	"os"
	"sort"
	"strings"
	"time"

	"golang.org/x/sys/unix"

	"github.com/panjf2000/gnet/v2/internal/verifmc/mcerrgroup"
	"github.com/panjf2000/gnet/v2/internal/verifmc/mcsys"
	"github.com/panjf2000/gnet/v2/internal/verifmc/mctime"
	"github.com/panjf2000/gnet/v2/internal/verifmc/sched"
)

var _ = mcerrgroup.Spawned

type nopLogger struct{}

func (nopLogger) Debugf(string, ...any) {}
func (nopLogger) Infof(string, ...any)  {}
func (nopLogger) Warnf(string, ...any)  {}
func (nopLogger) Errorf(string, ...any) {}
func (nopLogger) Fatalf(string, ...any) {}

// cbEvent is one observed callback.
type cbEvent struct {
	Kind   string // boot, shutdown, open, traffic, close, tick, async, exec
	Conn   int    // connection id (order of OnOpen), -1 if none
	Thread int
	Err    string
	Note   string
	Step   int
}

type connInfo struct {
	id         int
	c          Conn
	fd         int
	thread     int // scheduler thread of its OnOpen
	loop       EventLoop
	opens      int
	closes     int
	traffics   int
	closeErr   error
	afterClose []string
	local      string
	remote     string
	consumed   []byte // bytes obtained through the read methods (C01)
	delivered  int    // bytes the framework read(2) for this fd, from the ledger, at last look
	accepted   []byte // bytes accepted by write operations in effect order (C02)
}

type violT struct{ msg, sig string }

type world struct {
	name       string
	addr       string
	addrs      []string
	opts       []Option
	client     bool
	cli        *Client
	eng        Engine
	booted     bool
	shutdowns  int
	boots      int
	events     []cbEvent
	conns      []*connInfo
	byConn     map[Conn]*connInfo
	runErr     error
	runDone    bool
	afterRun   []string // callbacks observed after Run/Stop returned
	viols      []violT
	peers      []*peer
	ticks      int
	inCallback map[int]int // thread -> nesting (confinement)
	loopThread map[EventLoop]int
	obs        []string

	// behaviour hooks (nil = default)
	onBoot     func(w *world, eng Engine) Action
	onOpen     func(w *world, ci *connInfo) ([]byte, Action)
	onTraffic  func(w *world, ci *connInfo) Action
	onClose    func(w *world, ci *connInfo, err error) Action
	onTick     func(w *world) (time.Duration, Action)
	onShutdown func(w *world, eng Engine)
	script     func(w *world) // spawns peers / users (called on main before Run)
	deviate    func(site string, fd int, n int) []string
	extra      func(w *world) (string, string) // scenario-specific oracle, evaluated by the property's monitor
	checks     []func(w *world, out *sched.Outcome) (string, string)
	deadlockOK bool
	aux        interface{} // scenario-specific state shared with derived worlds
}

func (w *world) violate(sig, format string, a ...interface{}) {
	w.viols = append(w.viols, violT{fmt.Sprintf(format, a...), sig})
}

func (w *world) ev(kind string, conn int, err error, note string) {
	e := cbEvent{Kind: kind, Conn: conn, Thread: sched.CurrentThread(), Note: note, Step: sched.Steps()}
	if err != nil {
		e.Err = err.Error()
	}
	w.events = append(w.events, e)
	if w.runDone {
		w.afterRun = append(w.afterRun, fmt.Sprintf("%s(conn %d) at step %d", kind, conn, e.Step))
	}
}

// ---- the EventHandler ----------------------------------------------------------------------

type mcHandler struct{ w *world }

func (h *mcHandler) OnBoot(eng Engine) Action {
	w := h.w
	w.eng = eng
	w.boots++
	w.ev("boot", -1, nil, "")
	a := None
	if w.onBoot != nil {
		a = w.onBoot(w, eng)
	}
	w.booted = true
	return a
}

func (h *mcHandler) OnShutdown(eng Engine) {
	w := h.w
	w.shutdowns++
	w.ev("shutdown", -1, nil, "")
	if w.onShutdown != nil {
		w.onShutdown(w, eng)
	}
}

func (w *world) info(c Conn) *connInfo {
	if ci, ok := w.byConn[c]; ok {
		return ci
	}
	return nil
}

func (w *world) enter(c Conn) {
	t := sched.CurrentThread()
	if w.inCallback == nil {
		w.inCallback = map[int]int{}
		w.loopThread = map[EventLoop]int{}
	}
	w.inCallback[t]++
	if c != nil {
		el := c.EventLoop()
		if prev, ok := w.loopThread[el]; ok && prev != t {
			w.violate("confine:thread", "callbacks of one event loop ran on scheduler threads %d and %d", prev, t)
		}
		w.loopThread[el] = t
	}
}
func (w *world) leave() { w.inCallback[sched.CurrentThread()]-- }

func (h *mcHandler) OnOpen(c Conn) ([]byte, Action) {
	w := h.w
	w.enter(c)
	defer w.leave()
	ci := w.info(c)
	if ci == nil {
		ci = &connInfo{id: len(w.conns), c: c, fd: c.Fd(), thread: sched.CurrentThread(), loop: c.EventLoop()}
		w.conns = append(w.conns, ci)
		w.byConn[c] = ci
	}
	ci.opens++
	if ci.closes > 0 {
		ci.afterClose = append(ci.afterClose, "OnOpen")
	}
	if la := c.LocalAddr(); la != nil {
		ci.local = la.String()
	}
	if ra := c.RemoteAddr(); ra != nil {
		ci.remote = ra.String()
	}
	w.ev("open", ci.id, nil, "")
	if w.onOpen != nil {
		return w.onOpen(w, ci)
	}
	return nil, None
}

func (h *mcHandler) OnClose(c Conn, err error) Action {
	w := h.w
	w.enter(c)
	defer w.leave()
	ci := w.info(c)
	if ci == nil {
		// OnClose without OnOpen
		ci = &connInfo{id: len(w.conns), c: c, fd: -1, thread: sched.CurrentThread()}
		w.conns = append(w.conns, ci)
		w.byConn[c] = ci
	}
	if ci.closes > 0 {
		ci.afterClose = append(ci.afterClose, "OnClose")
	}
	ci.closes++
	ci.closeErr = err
	w.ev("close", ci.id, err, "")
	if ci.closes > 3 {
		// a broken engine may deliver OnClose again from inside the scenario's own OnClose hook
		// (re-entrant close): stop the recursion here, the lifecycle monitor reports the repeats
		return None
	}
	if w.onClose != nil {
		return w.onClose(w, ci, err)
	}
	return None
}

func (h *mcHandler) OnTraffic(c Conn) Action {
	w := h.w
	w.enter(c)
	defer w.leave()
	ci := w.info(c)
	if ci == nil {
		ci = &connInfo{id: len(w.conns), c: c, fd: c.Fd(), thread: sched.CurrentThread(), loop: c.EventLoop()}
		w.conns = append(w.conns, ci)
		w.byConn[c] = ci
		ci.afterClose = append(ci.afterClose, "OnTraffic-before-OnOpen")
	}
	if ci.closes > 0 {
		ci.afterClose = append(ci.afterClose, "OnTraffic")
	}
	if ci.opens == 0 {
		ci.afterClose = append(ci.afterClose, "OnTraffic-before-OnOpen")
	}
	ci.traffics++
	w.ev("traffic", ci.id, nil, "")
	if w.onTraffic != nil {
		return w.onTraffic(w, ci)
	}
	return None
}

func (h *mcHandler) OnTick() (time.Duration, Action) {
	w := h.w
	w.ticks++
	w.ev("tick", -1, nil, "")
	if w.onTick != nil {
		return w.onTick(w)
	}
	return time.Second, None
}

// ---- peers -----------------------------------------------------------------------------------

type peer struct {
	w         *world
	id        int
	fd        int
	got       []byte
	eof       bool
	rerr      error
	sent      int
	path      string
	connected bool // set by scenarios that need "has connected and closed" rather than "fd < 0"
}

func sockPath() string {
	d := os.Getenv("MC_SCRATCH")
	if d == "" {
		d = os.TempDir()
	}
	return d + "/mc.sock"
}

func (w *world) waitBoot() {
	sched.BlockUntil(func() bool { return w.booted })
}

func (w *world) newPeer() *peer {
	p := &peer{w: w, id: len(w.peers), fd: -1, path: strings.TrimPrefix(w.addr, "unix://")}
	w.peers = append(w.peers, p)
	return p
}

func (p *peer) connect() bool {
	if strings.HasPrefix(p.w.addr, "tcp://") {
		var port int
		fmt.Sscanf(p.w.addr, "tcp://127.0.0.1:%d", &port)
		fd, _, err := mcsys.PConnectTCP(&unix.SockaddrInet4{Port: port, Addr: [4]byte{127, 0, 0, 1}}, false)
		if err != nil {
			p.rerr = err
			return false
		}
		p.fd = fd
		return true
	}
	fd, err := mcsys.PConnectUnix(p.path)
	if err != nil {
		p.rerr = err
		return false
	}
	p.fd = fd
	return true
}

// send writes all of b (non-blocking socket: waits for writability between partial writes).
func (p *peer) send(b []byte) bool {
	for len(b) > 0 {
		n, err := mcsys.PWrite(p.fd, b)
		if err == unix.EAGAIN {
			fd := p.fd
			sched.BlockUntil(func() bool { return fdWritable(fd) })
			continue
		}
		if err != nil {
			p.rerr = err
			return false
		}
		p.sent += n
		b = b[n:]
	}
	return true
}

func fdWritable(fd int) bool {
	pfd := []unix.PollFd{{Fd: int32(fd), Events: unix.POLLOUT}}
	n, err := unix.Poll(pfd, 0)
	return err == nil && n > 0 && pfd[0].Revents != 0
}

// recv reads until at least n bytes have been received in total, EOF or error; one read(2) per
// scheduling point, parked (not spinning) while nothing is readable.
func (p *peer) recv(total int) {
	buf := make([]byte, 1<<16)
	for len(p.got) < total && !p.eof && p.rerr == nil {
		fd := p.fd
		sched.BlockUntil(func() bool { return mcsys.FdReadable(fd) })
		n, err := mcsys.PRead(p.fd, buf)
		switch {
		case err == unix.EAGAIN:
			continue
		case err != nil:
			p.rerr = err
		case n == 0:
			p.eof = true
		default:
			p.got = append(p.got, buf[:n]...)
		}
	}
}

// recvAvail reads whatever is available right now without waiting.
func (p *peer) recvAvail() {
	buf := make([]byte, 1<<16)
	for mcsys.FdReadable(p.fd) && !p.eof && p.rerr == nil {
		n, err := mcsys.PRead(p.fd, buf)
		switch {
		case err == unix.EAGAIN:
			return
		case err != nil:
			p.rerr = err
		case n == 0:
			p.eof = true
		default:
			p.got = append(p.got, buf[:n]...)
		}
	}
}

func (p *peer) recvEOF() { p.recv(1 << 30) }

func (p *peer) close() {
	if p.fd >= 0 {
		_ = mcsys.PClose(p.fd)
		p.fd = -1
	}
}

// ---- scenario plumbing -------------------------------------------------------------------------

func newWorld(name string) *world {
	return &world{name: name, addr: "unix://" + sockPath(), byConn: map[Conn]*connInfo{}}
}

func (w *world) baseOpts() []Option {
	return append([]Option{WithLogger(nopLogger{}), WithNumEventLoop(1)}, w.opts...)
}

// Body is thread 0.
func (w *world) Body() {
	mcsys.Reset()
	mctime.Reset()
	mcsys.Deviate = w.deviate
	if w.script != nil {
		w.script(w)
	}
	h := &mcHandler{w}
	addrs := w.addrs
	if len(addrs) == 0 {
		addrs = []string{w.addr}
	}
	if len(addrs) == 1 {
		w.runErr = Run(h, addrs[0], w.baseOpts()...)
	} else {
		w.runErr = Rotate(h, addrs, w.baseOpts()...)
	}
	w.ev("run-returned", -1, w.runErr, "")
	w.runDone = true
	// keep the system running until nothing is enabled and every pending virtual timer has fired:
	// any callback observed from here on is a "callback after return"
	for i := 0; i < 4; i++ {
		sched.WaitIdle()
	}
}

func (w *world) Observe() string {
	// a multiset of callbacks (the order of closes at loop exit follows Go's map iteration order)
	var evs []string
	for _, e := range w.events {
		evs = append(evs, fmt.Sprintf("%s%d", e.Kind[:1], e.Conn))
	}
	sort.Strings(evs)
	var sb strings.Builder
	sb.WriteString(strings.Join(evs, " "))
	for _, p := range w.peers {
		fmt.Fprintf(&sb, "|p%d:%d", p.id, len(p.got))
	}
	sb.WriteString(strings.Join(w.obs, ","))
	return sb.String()
}

func (w *world) describe() string {
	var sb strings.Builder
	for _, e := range w.events {
		fmt.Fprintf(&sb, "%s", e.Kind)
		if e.Conn >= 0 {
			fmt.Fprintf(&sb, "#%d", e.Conn)
		}
		if e.Err != "" {
			fmt.Fprintf(&sb, "(%s)", e.Err)
		}
		fmt.Fprintf(&sb, "@T%d ", e.Thread)
	}
	return sb.String()
}

func (w *world) Check(out *sched.Outcome) (msg, sig string) {
	defer mcsys.CloseAllOpen()
	// collect every violation of this execution; report one that is not a known finding if any
	var all []violT
	all = append(all, w.viols...)
	for _, c := range w.checks {
		if m, s := c(w, out); m != "" {
			all = append(all, violT{m, s})
		}
	}
	if len(all) == 0 {
		return "", ""
	}
	pick := all[0]
	for _, v := range all {
		if !sched.IsKnown(v.sig) {
			pick = v
			break
		}
	}
	return pick.msg + " [" + w.describe() + "]", pick.sig
}

// shutdownVia asks the engine to stop from a harness thread and waits for it.
func (w *world) stopEngine() error {
	return w.eng.Stop(context.Background())
}

// fwReadBytes sums the bytes the framework read(2) from fd according to the ledger.
func fwReadBytes(fd int) int {
	n := 0
	if mcsys.L == nil {
		return 0
	}
	for _, e := range mcsys.L.Events {
		if e.Who == "fw" && e.Fd == fd && (e.Op == "read" || e.Op == "readv") && e.N > 0 {
			n += e.N
		}
	}
	return n
}

// checkEnd is the common end-of-execution check: the run must have finished regularly.
func checkEnd(w *world, out *sched.Outcome) (string, string) {
	if out.End == "horizon" {
		return fmt.Sprintf("execution did not end within %d steps", out.Steps), "end:horizon"
	}
	if out.End == "deadlock" && !w.deadlockOK {
		return fmt.Sprintf("deadlock: no thread enabled, blocked: %v", out.Blocked), "end:deadlock"
	}
	return "", ""
}

func mctimeReset() { mctime.Reset() }

// Cleanup closes every descriptor the ledger still lists as open (executions that were unwound).
func (w *world) Cleanup() { mcsys.CloseAllOpen() }

// ledgerFirst returns the first ledger violation whose signature (with the given prefix) is not a
// recorded known finding, else the first one: a known finding must not hide a different violation
// that happens later in the same execution.
func ledgerFirst(prefix string) (string, string) {
	if mcsys.L == nil || len(mcsys.L.Violations) == 0 {
		return "", ""
	}
	for i, sig := range mcsys.L.Sigs {
		if !sched.IsKnown(prefix + sig) {
			return mcsys.L.Violations[i], sig
		}
	}
	return mcsys.L.Violations[0], mcsys.L.Sigs[0]
}
