//go:build verifmc

package gnet

// C06 — graceful shutdown is complete, bounded and final.

import (
	"context"
	"fmt"
	"net"
	"os"
	"strings"
	"testing"
	"time"

	"golang.org/x/sys/unix"

	"github.com/panjf2000/gnet/v2/internal/verifmc/mcsys"
	"github.com/panjf2000/gnet/v2/internal/verifmc/sched"
	"github.com/panjf2000/gnet/v2/internal/verifmc/seqmc"
)

type shutCfg struct {
	name  string
	et    bool
	heavy bool
	build func(w *world)
}

// closerAfterRun closes all peer sockets once Run has returned (so that peers blocked on EOF end).
func (w *world) closerAfterRun() {
	sched.Go("closer", func() {
		sched.BlockUntil(func() bool { return w.runDone })
		for _, p := range w.peers {
			if p.fd >= 0 {
				p.recvAvail()
				p.close()
			}
		}
	})
}

func shutConfigs() []shutCfg {
	var cfgs []shutCfg
	add := func(name string, heavy bool, build func(w *world)) {
		for _, et := range []bool{false, true} {
			cfgs = append(cfgs, shutCfg{name: name + map[bool]string{false: "/LT", true: "/ET"}[et], et: et, heavy: heavy, build: build})
		}
	}
	idlePeer := func(w *world, done *int) {
		w.peerThread("peer", done, func(p *peer) {
			if p.connect() {
				sched.BlockUntil(func() bool { return len(w.conns) > 0 })
			}
		})
	}
	add("stop-user/idle-conn", false, func(w *world) {
		w.script = func(w *world) {
			done := 0
			idlePeer(w, &done)
			w.ctl(&done, 1, nil)
			w.closerAfterRun()
		}
	})
	add("stop-package/idle-conn", false, func(w *world) {
		w.script = func(w *world) {
			done := 0
			idlePeer(w, &done)
			sched.Go("ctl", func() {
				w.waitBoot()
				sched.BlockUntil(func() bool { return done >= 1 })
				if err := Stop(context.Background(), w.addr); err != nil {
					w.violate("stop:err", "package-level Stop returned %v", err)
				}
			})
			w.closerAfterRun()
		}
	})
	add("shutdown-from-onopen", false, func(w *world) {
		w.onOpen = func(w *world, ci *connInfo) ([]byte, Action) { return nil, Shutdown }
		w.script = func(w *world) {
			done := 0
			w.peerThread("peer", &done, func(p *peer) { p.connect() })
			w.closerAfterRun()
		}
	})
	add("shutdown-from-onopen/registered", false, func(w *world) {
		// OnOpen of a connection handed in through Engine.Register (not accepted by a listener)
		// answers Shutdown
		w.onOpen = func(w *world, ci *connInfo) ([]byte, Action) { return nil, Shutdown }
		w.script = func(w *world) {
			sched.Go("user", func() {
				w.waitBoot()
				sched.WaitIdle() // OnBoot runs before the event loops exist
				nc, pfd, err := socketpairConn()
				if err != nil {
					w.violate("client:socketpair", "%v", err)
					return
				}
				p := w.newPeer()
				p.fd = pfd
				if _, err := w.eng.Register(NewNetConnContext(context.Background(), nc)); err != nil {
					w.violate("ctl:Register", "Register: %v", err)
				}
			})
			w.closerAfterRun()
		}
	})
	add("shutdown-from-ontraffic", false, func(w *world) {
		w.onTraffic = func(w *world, ci *connInfo) Action { return Shutdown }
		w.script = func(w *world) {
			done := 0
			w.peerThread("peer", &done, func(p *peer) {
				if p.connect() {
					p.send([]byte("x"))
				}
			})
			w.closerAfterRun()
		}
	})
	// the connection is already closed (inside the same callback) when OnTraffic returns Shutdown
	add("shutdown-from-ontraffic/after-elclose", false, func(w *world) {
		w.onTraffic = func(w *world, ci *connInfo) Action {
			_, _ = ci.c.Discard(-1)
			_ = ci.c.EventLoop().Close(ci.c)
			return Shutdown
		}
		w.script = func(w *world) {
			done := 0
			w.peerThread("peer", &done, func(p *peer) {
				if p.connect() {
					p.send([]byte("x"))
				}
			})
			w.closerAfterRun()
		}
	})
	add("shutdown-from-ontraffic/after-failed-write", false, func(w *world) {
		w.onTraffic = func(w *world, ci *connInfo) Action {
			_, _ = ci.c.Discard(-1)
			sched.BlockUntil(func() bool { return w.peers[0].fd < 0 }) // the peer has gone: the write below fails
			_, _ = ci.c.Write(make([]byte, 1024))
			return Shutdown
		}
		w.script = func(w *world) {
			done := 0
			w.peerThread("peer", &done, func(p *peer) {
				if p.connect() {
					p.send([]byte("x"))
					p.close()
				}
			})
		}
	})
	add("shutdown-from-ontraffic/wake", false, func(w *world) {
		// OnTraffic runs because of Conn.Wake (eventloop.wake, no inbound data) and returns Shutdown
		w.onTraffic = func(w *world, ci *connInfo) Action { return Shutdown }
		w.script = func(w *world) {
			done := 0
			idlePeer(w, &done)
			sched.Go("user", func() {
				sched.BlockUntil(func() bool { return len(w.conns) > 0 && w.conns[0].opens > 0 })
				_ = w.conns[0].c.Wake(nil)
			})
			w.closerAfterRun()
		}
	})
	add("shutdown-from-ontraffic/registered-udp", false, func(w *world) {
		// a connected UDP socket handed to Engine.Register: a datagram arrives on it and OnTraffic
		// answers Shutdown (the poll_opt build serves such sockets through readUDP, the default build
		// through the stream path)
		w.onTraffic = func(w *world, ci *connInfo) Action {
			_, _ = ci.c.Discard(-1)
			return Shutdown
		}
		w.script = func(w *world) {
			sched.Go("user", func() {
				w.waitBoot()
				sched.WaitIdle() // OnBoot runs before the event loops exist: let the start finish
				port := udpPort() + 7
				pfd, _, err := mcsys.PUDPSocket(false, port)
				if err != nil {
					w.violate("udp:harness", "udp socket: %v", err)
					return
				}
				nc, err := net.DialUDP("udp4", nil, &net.UDPAddr{IP: net.IPv4(127, 0, 0, 1), Port: port})
				if err != nil {
					w.violate("udp:harness", "dial: %v", err)
					return
				}
				la := nc.LocalAddr().(*net.UDPAddr)
				ch, err := w.eng.Register(NewNetConnContext(context.Background(), nc))
				if err != nil {
					w.violate("ctl:Register", "Register(udp conn): %v", err)
					return
				}
				sched.BlockUntil(func() bool { return len(w.conns) > 0 && w.conns[0].opens > 0 })
				_ = ch
				_ = mcsys.PSendto(pfd, []byte("dgram"), &unix.SockaddrInet4{Port: la.Port, Addr: [4]byte{127, 0, 0, 1}})
				settle(nil)
				sched.BlockUntil(func() bool { return w.runDone })
				_ = mcsys.PClose(pfd)
			})
		}
	})
	add("shutdown-from-onclose/peer-close", false, func(w *world) {
		w.onTraffic = func(w *world, ci *connInfo) Action { _, _ = ci.c.Discard(-1); return None }
		w.onClose = func(w *world, ci *connInfo, err error) Action { return Shutdown }
		w.script = func(w *world) {
			done := 0
			w.peerThread("peer", &done, func(p *peer) {
				if p.connect() {
					p.send([]byte("x"))
					p.close()
				}
			})
		}
	})
	add("shutdown-from-onclose/failed-write", false, func(w *world) {
		w.onTraffic = func(w *world, ci *connInfo) Action {
			_, _ = ci.c.Discard(-1)
			sched.BlockUntil(func() bool { return w.peers[0].fd < 0 }) // the peer has gone: the write below fails
			_, _ = ci.c.Write(make([]byte, 1024))
			return None
		}
		w.onClose = func(w *world, ci *connInfo, err error) Action { return Shutdown }
		w.script = func(w *world) {
			done := 0
			w.peerThread("peer", &done, func(p *peer) {
				if p.connect() {
					p.send([]byte("x"))
					p.close()
				}
			})
		}
	})
	add("shutdown-from-onclose/async-close", false, func(w *world) {
		w.onTraffic = func(w *world, ci *connInfo) Action { _, _ = ci.c.Discard(-1); _ = ci.c.Close(); return None }
		w.onClose = func(w *world, ci *connInfo, err error) Action { return Shutdown }
		w.script = func(w *world) {
			done := 0
			w.peerThread("peer", &done, func(p *peer) {
				if p.connect() {
					p.send([]byte("x"))
				}
			})
			w.closerAfterRun()
		}
	})
	add("shutdown-from-ontick", false, func(w *world) {
		w.opts = append(w.opts, WithTicker(true))
		w.onTick = func(w *world) (time.Duration, Action) {
			if w.ticks >= 2 {
				return time.Second, Shutdown
			}
			return time.Second, None
		}
		w.script = func(w *world) {
			done := 0
			idlePeer(w, &done)
			w.closerAfterRun()
		}
	})
	add("shutdown-from-onboot", false, func(w *world) {
		w.onBoot = func(w *world, eng Engine) Action { return Shutdown }
		w.script = func(w *world) {}
	})
	add("stop-during-accept", true, func(w *world) {
		w.script = func(w *world) {
			done := 0
			for i := 0; i < 2; i++ {
				w.peerThread(fmt.Sprintf("peer%d", i), &done, func(p *peer) { p.connect() })
			}
			sched.Go("ctl", func() {
				w.waitBoot()
				if err := w.stopEngine(); err != nil {
					w.violate("stop:err", "Engine.Stop returned %v", err)
				}
			})
			w.closerAfterRun()
		}
	})
	add("stop-with-pending-outbound", false, func(w *world) {
		w.onTraffic = func(w *world, ci *connInfo) Action {
			_, _ = ci.c.Discard(-1)
			_, _ = ci.c.Write(make([]byte, 512*1024)) // far more than the socket buffer: stays buffered
			return None
		}
		w.script = func(w *world) {
			done := 0
			w.peerThread("peer", &done, func(p *peer) {
				if p.connect() {
					p.send([]byte("x"))
					sched.BlockUntil(func() bool { return len(w.conns) > 0 && w.conns[0].traffics > 0 })
				}
			})
			w.ctl(&done, 1, nil)
			w.closerAfterRun()
		}
	})
	add("stop-with-busy-sender", false, func(w *world) {
		// the peer has queued 16 KB and keeps its connection open: Stop arrives while the loop is
		// working through it (ET: chunk by chunk, re-queuing eventloop.read0 behind the shutdown
		// signal). Only termination is judged: a bound on reads per loop iteration was tried as an
		// oracle and dropped, because the unchanged engine drains re-queued reads within one task
		// phase (15 reads in one iteration on the clean tree), see DESIGN 9.7 (seed C06-r2-3).
		w.opts = append(w.opts, WithReadBufferCap(1024), WithEdgeTriggeredIOChunk(2048))
		w.onTraffic = func(w *world, ci *connInfo) Action { _, _ = ci.c.Discard(-1); return None }
		w.script = func(w *world) {
			done := 0
			w.peerThread("peer", &done, func(p *peer) {
				if p.connect() {
					p.send(make([]byte, 16*1024))
					sched.BlockUntil(func() bool { return len(w.conns) > 0 && w.conns[0].traffics > 0 })
				}
			})
			w.ctl(&done, 1, nil)
			w.closerAfterRun()
		}
	})
	add("stop-with-async-in-flight", true, func(w *world) {
		w.script = func(w *world) {
			done := 0
			idlePeer(w, &done)
			cbs := 0
			sched.Go("user", func() {
				sched.BlockUntil(func() bool { return len(w.conns) > 0 })
				_ = w.conns[0].c.AsyncWrite([]byte("bye"), func(Conn, error) error { cbs++; return nil })
				done++
			})
			w.ctl(&done, 2, nil)
			w.closerAfterRun()
		}
	})
	add("stop-with-low-priority-in-flight", true, func(w *world) {
		// Wake and Execute are low-priority requests: the shutdown signal (high priority) arrives while
		// the loop is busy with them
		w.script = func(w *world) {
			done := 0
			idlePeer(w, &done)
			sched.Go("user", func() {
				sched.BlockUntil(func() bool { return len(w.conns) > 0 })
				c := w.conns[0].c
				_ = c.Wake(nil)
				_ = c.EventLoop().Execute(context.Background(), runnable{func() {}})
				_ = c.Wake(nil)
				done++
			})
			sched.Go("ctl", func() {
				w.waitBoot()
				sched.BlockUntil(func() bool { return len(w.conns) > 0 })
				if err := w.stopEngine(); err != nil {
					w.violate("stop:err", "Engine.Stop returned %v", err)
				}
			})
			w.closerAfterRun()
		}
	})
	add("stop-at-once+ticker", false, func(w *world) {
		// Stop races with engine start: the ticker's first OnTick must not run after Run returned
		w.opts = append(w.opts, WithTicker(true))
		w.script = func(w *world) {
			sched.Go("ctl", func() {
				w.waitBoot()
				if err := w.stopEngine(); err != nil {
					w.violate("stop:err", "Engine.Stop returned %v", err)
				}
			})
		}
	})
	add("stop-at-once+ticker/udp-reuseport", false, func(w *world) {
		// a UDP listener forces SO_REUSEPORT mode (engine.runEventLoops, eventloop.run): the ticker
		// goroutine of that mode must be joined by the shutdown too
		w.opts = append(w.opts, WithTicker(true))
		w.addr = fmt.Sprintf("udp://127.0.0.1:%d", udpPort())
		w.script = func(w *world) {
			sched.Go("ctl", func() {
				w.waitBoot()
				if err := w.stopEngine(); err != nil {
					w.violate("stop:err", "Engine.Stop returned %v", err)
				}
			})
		}
	})
	add("ticker-shutdown/udp-reuseport", false, func(w *world) {
		w.opts = append(w.opts, WithTicker(true))
		w.addr = fmt.Sprintf("udp://127.0.0.1:%d", udpPort())
		w.onTick = func(w *world) (time.Duration, Action) {
			if w.ticks >= 2 {
				return time.Second, Shutdown
			}
			return time.Second, None
		}
		w.script = func(w *world) {}
	})
	add("late-ops-after-run", false, func(w *world) {
		// requests through a Conn the application still holds after Run has returned: no callback may
		// run any more and the framework must not touch descriptors it has closed (the wake-up
		// eventfd's number may belong to someone else by now); the ledger judges the latter under C07
		w.script = func(w *world) {
			done := 0
			idlePeer(w, &done)
			w.ctl(&done, 1, nil)
			sched.Go("late-user", func() {
				sched.BlockUntil(func() bool { return w.runDone && len(w.conns) > 0 })
				c := w.conns[0].c
				_ = c.Wake(nil)
				_ = c.AsyncWrite([]byte("late"), nil)
				_ = c.AsyncWritev([][]byte{[]byte("later")}, nil)
				_ = c.Close()
				sched.WaitIdle()
			})
			w.closerAfterRun()
		}
	})
	add("two-conns/onclose-returns-shutdown", true, func(w *world) {
		// every OnClose answers Shutdown: the shutdown sweep must still reach every connection
		w.onClose = func(w *world, ci *connInfo, err error) Action { return Shutdown }
		w.script = func(w *world) {
			done := 0
			for i := 0; i < 3; i++ {
				w.peerThread(fmt.Sprintf("peer%d", i), &done, func(p *peer) {
					if p.connect() {
						sched.BlockUntil(func() bool { return len(w.conns) >= 3 })
					}
				})
			}
			w.ctl(&done, 3, nil)
			w.closerAfterRun()
		}
	})
	add("ticker+two-listeners/stop", true, func(w *world) {
		w.opts = append(w.opts, WithTicker(true))
		w.addrs = []string{w.addr, w.addr + "2"}
		w.script = func(w *world) {
			done := 0
			idlePeer(w, &done)
			w.ctl(&done, 1, nil)
			w.closerAfterRun()
		}
	})
	return cfgs
}

// shutdownCheck is the C06 monitor.
// readsPerIteration returns the largest number of read(2) calls the framework made on one
// descriptor between two consecutive epoll_wait calls of the same thread, and that descriptor.
func readsPerIteration() (int, int) {
	type key struct{ thread, fd int }
	cur := map[key]int{}
	best, bestFd := 0, -1
	for _, e := range mcsys.L.Events {
		if e.Who != "fw" {
			continue
		}
		switch e.Op {
		case "epoll_wait":
			for k := range cur {
				if k.thread == e.Thread {
					delete(cur, k)
				}
			}
		case "read":
			k := key{e.Thread, e.Fd}
			cur[k]++
			if cur[k] > best {
				best, bestFd = cur[k], e.Fd
			}
		}
	}
	return best, bestFd
}

func shutdownCheck(w *world, out *sched.Outcome) (string, string) {
	if w.extra != nil {
		if m, s := w.extra(w); m != "" {
			return m, s
		}
	}
	if !w.runDone {
		return fmt.Sprintf("shutdown was requested but Run has not returned (end=%s after %d steps, blocked=%v)", out.End, out.Steps, out.Blocked), "shutdown:run-hangs"
	}
	if w.runErr != nil {
		return fmt.Sprintf("Run returned %v", w.runErr), "shutdown:run-err"
	}
	bootShutdown := false
	for _, e := range w.events {
		if e.Kind == "boot" && w.onBoot != nil {
			bootShutdown = true
		}
	}
	if bootShutdown {
		if w.shutdowns != 0 || len(w.conns) != 0 {
			return "Shutdown from OnBoot: callbacks ran afterwards", "shutdown:boot"
		}
		for _, e := range mcsys.L.Events {
			if e.Op == "epoll_create1" || e.Op == "eventfd" {
				return "Shutdown from OnBoot: the engine still created pollers", "shutdown:boot-started"
			}
		}
		return "", ""
	}
	if w.shutdowns != 1 {
		return fmt.Sprintf("OnShutdown ran %d times", w.shutdowns), "shutdown:onshutdown-count"
	}
	runIdx := -1
	for i, e := range w.events {
		if e.Kind == "run-returned" {
			runIdx = i
		}
	}
	for _, ci := range w.conns {
		if ci.opens > 0 && ci.closes != 1 {
			return fmt.Sprintf("connection #%d was opened but saw OnClose %d times before Run returned", ci.id, ci.closes), "shutdown:no-close"
		}
	}
	_ = runIdx
	if len(w.afterRun) > 0 {
		return "callbacks after Run returned: " + strings.Join(w.afterRun, ", "), "shutdown:after-run"
	}
	return "", ""
}

func shutWorld(c shutCfg) *world {
	w := newWorld(c.name)
	if c.et {
		w.opts = append(w.opts, WithEdgeTriggeredIO(true))
	}
	c.build(w)
	return w
}

func shutSchedConfigs() ([]sched.Config, func(string) *sched.Config) {
	var out []sched.Config
	for _, c := range shutConfigs() {
		c := c
		bounds := engineBounds(2, 3, 0)
		if c.heavy {
			bounds = engineBounds(1, 2, 0)
		}
		out = append(out, sched.Config{Property: "C06", Name: c.name, Bounds: bounds, Horizon: 20000, Deadline: seqmc.Deadline(), DelayBounded: true, New: func() sched.Scenario {
			w := shutWorld(c)
			w.checks = append(w.checks, checkEnd, shutdownCheck)
			return w
		}})
	}
	out = append(out, fatalAcceptConfigs("C06")...)
	// client
	for _, et := range []bool{false, true} {
		et := et
		out = append(out, sched.Config{Property: "C06", Name: "client-stop" + map[bool]string{false: "/LT", true: "/ET"}[et], Bounds: engineBounds(2, 3, 0), Horizon: 20000, Deadline: seqmc.Deadline(), DelayBounded: true,
			New: func() sched.Scenario { return clientStopWorld(et) }})
	}
	return out, func(name string) *sched.Config {
		for i := range out {
			if out[i].Name == name {
				return &out[i]
			}
		}
		return nil
	}
}

// socketpairConn returns a net.Conn for one end of a unix socketpair and the raw fd of the other.
func socketpairConn() (net.Conn, int, error) {
	fds, err := unix.Socketpair(unix.AF_UNIX, unix.SOCK_STREAM|unix.SOCK_CLOEXEC, 0)
	if err != nil {
		return nil, -1, err
	}
	f := os.NewFile(uintptr(fds[0]), "sp")
	c, err := net.FileConn(f)
	_ = f.Close()
	if err != nil {
		_ = unix.Close(fds[1])
		return nil, -1, err
	}
	_ = unix.SetNonblock(fds[1], true)
	mcsys.Adopt(fds[1], "user", "socketpair-peer")
	return c, fds[1], nil
}

// clientWorld runs a Client instead of a server: main starts it, enrols one socketpair end,
// exchanges data and stops it.
type clientWorld struct {
	*world
	body func(cw *clientWorld)
}

func (cw *clientWorld) Body() {
	mcsys.Reset()
	mctimeReset()
	mcsys.Deviate = cw.deviate
	cw.body(cw)
	cw.ev("run-returned", -1, cw.runErr, "")
	cw.runDone = true
	for i := 0; i < 4; i++ {
		sched.WaitIdle()
	}
}

func clientStopWorld(et bool) sched.Scenario {
	w := newWorld("client-stop")
	cw := &clientWorld{world: w}
	w.onTraffic = echoTraffic
	cw.body = func(cw *clientWorld) {
		opts := []Option{WithLogger(nopLogger{}), WithNumEventLoop(1)}
		if et {
			opts = append(opts, WithEdgeTriggeredIO(true))
		}
		cli, err := NewClient(&mcHandler{w}, opts...)
		if err != nil {
			w.violate("client:new", "NewClient: %v", err)
			return
		}
		if err := cli.Start(); err != nil {
			w.violate("client:start", "Client.Start: %v", err)
			return
		}
		nc, pfd, err := socketpairConn()
		if err != nil {
			w.violate("client:socketpair", "%v", err)
			return
		}
		p := w.newPeer()
		p.fd = pfd
		sched.Go("peer", func() {
			p.send([]byte("ping"))
			p.recv(4)
		})
		if _, err := cli.Enroll(nc); err != nil {
			w.violate("client:enroll", "Client.Enroll: %v", err)
		}
		sched.BlockUntil(func() bool { return len(p.got) >= 4 || p.eof || p.rerr != nil })
		w.runErr = cli.Stop()
		w.obs = append(w.obs, string(p.got))
		sched.Go("closer", func() { p.recvAvail(); p.close() })
	}
	w.checks = append(w.checks, checkEnd, shutdownCheck, func(w *world, out *sched.Outcome) (string, string) {
		if string(w.peers[0].got) != "ping" {
			return fmt.Sprintf("client connection echoed %q", w.peers[0].got), "client:echo"
		}
		return "", ""
	})
	return cw
}

// clientUDPWorld: a Client enrols a CONNECTED UDP socket: OnOpen once (its reply is sent), traffic,
// Close action, OnClose once with a nil error.
func clientUDPWorld(et bool) sched.Scenario {
	w := newWorld("client-udp")
	cw := &clientWorld{world: w}
	w.onOpen = func(w *world, ci *connInfo) ([]byte, Action) { return []byte("hello"), None }
	w.onTraffic = func(w *world, ci *connInfo) Action {
		b, _ := ci.c.Next(-1)
		ci.consumed = append(ci.consumed, b...)
		return Close
	}
	var got []byte
	cw.body = func(cw *clientWorld) {
		opts := []Option{WithLogger(nopLogger{}), WithNumEventLoop(1)}
		if et {
			opts = append(opts, WithEdgeTriggeredIO(true))
		}
		cli, err := NewClient(&mcHandler{w}, opts...)
		if err != nil {
			w.violate("client:new", "NewClient: %v", err)
			return
		}
		if err := cli.Start(); err != nil {
			w.violate("client:start", "Client.Start: %v", err)
			return
		}
		port := 30000 + (os.Getpid()%5000)*2
		pfd, _, err := mcsys.PUDPSocket(false, port)
		if err != nil {
			w.violate("client:harness", "udp socket: %v", err)
			return
		}
		nc, err := net.DialUDP("udp4", nil, &net.UDPAddr{IP: net.IPv4(127, 0, 0, 1), Port: port})
		if err != nil {
			w.violate("client:harness", "dial: %v", err)
			return
		}
		done := false
		sched.Go("peer", func() {
			buf := make([]byte, 2048)
			sched.BlockUntil(func() bool { return mcsys.FdReadable(pfd) })
			n, from, err := mcsys.PRecvfrom(pfd, buf)
			if err == nil {
				got = append(got, buf[:n]...)
				_ = mcsys.PSendto(pfd, []byte("reply"), from)
				settle(nil)
			}
			done = true
		})
		if _, err := cli.Enroll(nc); err != nil {
			w.violate("client:enroll", "Client.Enroll(udp): %v", err)
		}
		sched.BlockUntil(func() bool { return done })
		sched.WaitIdle()
		sched.WaitIdle()
		w.runErr = cli.Stop()
		_ = mcsys.PClose(pfd)
	}
	w.checks = append(w.checks, checkEnd, func(w *world, out *sched.Outcome) (string, string) {
		if string(got) != "hello" {
			return fmt.Sprintf("the peer of the enrolled UDP socket received %q instead of the OnOpen reply", got), "client-udp:reply"
		}
		if len(w.conns) != 1 {
			return fmt.Sprintf("%d connections were opened", len(w.conns)), "client-udp:open"
		}
		ci := w.conns[0]
		if ci.opens != 1 || ci.closes != 1 || len(ci.afterClose) > 0 {
			return fmt.Sprintf("connected client UDP socket: OnOpen %d times, OnClose %d times, after close: %v", ci.opens, ci.closes, ci.afterClose), "client-udp:lifecycle"
		}
		if ci.closeErr != nil {
			return fmt.Sprintf("Close action on the client UDP socket reported error %v", ci.closeErr), "client-udp:err"
		}
		if string(ci.consumed) != "reply" {
			return fmt.Sprintf("OnTraffic of the client UDP socket saw %q", ci.consumed), "client-udp:payload"
		}
		if m, s := fdCheck(w, out); m != "" {
			return m, s
		}
		return "", ""
	})
	return cw
}

// clientUDPLateWorld: a connected client UDP socket A is closed (Conn.Close); a second socket B is
// enrolled and takes over A's descriptor number; late Wake/Close requests through A's handle must be
// no-ops and in particular must not act on B (C04: "none of them ever acting on another connection").
func clientUDPLateWorld(et bool) sched.Scenario {
	w := newWorld("client-udp-late-ops")
	cw := &clientWorld{world: w}
	w.onOpen = func(w *world, ci *connInfo) ([]byte, Action) { return []byte("hello"), None }
	w.onTraffic = func(w *world, ci *connInfo) Action {
		b, _ := ci.c.Next(-1)
		ci.consumed = append(ci.consumed, b...)
		return None
	}
	cw.body = func(cw *clientWorld) {
		opts := []Option{WithLogger(nopLogger{}), WithNumEventLoop(1)}
		if et {
			opts = append(opts, WithEdgeTriggeredIO(true))
		}
		cli, err := NewClient(&mcHandler{w}, opts...)
		if err != nil {
			w.violate("client:new", "NewClient: %v", err)
			return
		}
		if err := cli.Start(); err != nil {
			w.violate("client:start", "Client.Start: %v", err)
			return
		}
		port := 30000 + (os.Getpid()%5000)*2
		pfd, _, err := mcsys.PUDPSocket(false, port)
		if err != nil {
			w.violate("client:harness", "udp socket: %v", err)
			return
		}
		dial := func() *net.UDPConn {
			nc, err := net.DialUDP("udp4", nil, &net.UDPAddr{IP: net.IPv4(127, 0, 0, 1), Port: port})
			if err != nil {
				w.violate("client:harness", "dial: %v", err)
				return nil
			}
			return nc
		}
		ncA := dial()
		if ncA == nil {
			return
		}
		sched.Go("peer", func() {
			buf := make([]byte, 2048)
			for i := 0; i < 2; i++ {
				sched.BlockUntil(func() bool { return mcsys.FdReadable(pfd) })
				_, from, err := mcsys.PRecvfrom(pfd, buf)
				if err == nil && i == 0 {
					_ = mcsys.PSendto(pfd, []byte("reply"), from)
					settle(nil)
				}
			}
		})
		if _, err := cli.Enroll(ncA); err != nil {
			w.violate("client:enroll", "Client.Enroll(udp A): %v", err)
			return
		}
		// A is closed with Conn.Close once it has seen the reply (a Close action returned from OnTraffic
		// is honoured for connected UDP sockets by the default build only: the poll_opt build routes
		// them through readUDP, which ignores it like for server-side UDP; not covered by a property)
		sched.BlockUntil(func() bool { return len(w.conns) > 0 && w.conns[0].traffics > 0 })
		sched.WaitIdle()
		_ = w.conns[0].c.Close()
		sched.BlockUntil(func() bool { return w.conns[0].closes > 0 })
		sched.WaitIdle()
		// dialled only now: Enroll closes the net.Conn it is given, so B's socket takes ncA's old
		// number and its duplicate takes the number A's duplicate had
		ncB := dial()
		if ncB == nil {
			return
		}
		if _, err := cli.Enroll(ncB); err != nil {
			w.violate("client:enroll", "Client.Enroll(udp B): %v", err)
			return
		}
		sched.BlockUntil(func() bool { return len(w.conns) > 1 && w.conns[1].opens > 0 })
		sched.WaitIdle()
		a, b := w.conns[0], w.conns[1]
		if a.fd != b.fd {
			w.obs = append(w.obs, "no-fd-reuse")
		}
		tB := b.traffics
		wakeCb, closeCb := 0, 0
		_ = a.c.Wake(func(Conn, error) error { wakeCb++; return nil })
		_ = a.c.CloseWithCallback(func(Conn, error) error { closeCb++; return nil })
		_ = a.c.Close()
		sched.WaitIdle()
		sched.WaitIdle()
		if b.closes > 0 {
			w.violate("late:wrongconn", "a late Close on the closed client UDP socket #0 closed socket #1, which re-uses descriptor %d", b.fd)
		}
		if b.traffics != tB {
			w.violate("late:wrongconn", "a late Wake on the closed client UDP socket #0 caused OnTraffic on socket #1, which re-uses descriptor %d", b.fd)
		}
		w.runErr = cli.Stop()
		_ = mcsys.PClose(pfd)
	}
	w.checks = append(w.checks, checkEnd, func(w *world, out *sched.Outcome) (string, string) {
		for _, ci := range w.conns {
			if ci.opens != 1 || ci.closes != 1 || len(ci.afterClose) > 0 {
				return fmt.Sprintf("client UDP socket #%d: OnOpen %d times, OnClose %d times, after close: %v", ci.id, ci.opens, ci.closes, ci.afterClose), "client-udp:lifecycle"
			}
		}
		if len(w.conns) != 2 {
			return fmt.Sprintf("%d connections were opened (want 2)", len(w.conns)), "client-udp:open"
		}
		if m, s := fdCheck(w, out); m != "" {
			return m, s
		}
		return "", ""
	})
	return cw
}

// clientTwoLoopWorld: a Client with two event loops; two user goroutines enrol one connection each,
// concurrently. Whatever loop the balancer picks, every callback of a connection runs on the
// thread of the loop the connection reports (world.enter: one thread per EventLoop), the echo
// works and Stop closes both.
func clientTwoLoopWorld(et bool) sched.Scenario {
	w := newWorld("client-two-loops")
	cw := &clientWorld{world: w}
	w.onTraffic = echoTraffic
	cw.body = func(cw *clientWorld) {
		opts := []Option{WithLogger(nopLogger{}), WithNumEventLoop(2)}
		if et {
			opts = append(opts, WithEdgeTriggeredIO(true))
		}
		cli, err := NewClient(&mcHandler{w}, opts...)
		if err != nil {
			w.violate("client:new", "NewClient: %v", err)
			return
		}
		if err := cli.Start(); err != nil {
			w.violate("client:start", "Client.Start: %v", err)
			return
		}
		done := 0
		for i := 0; i < 2; i++ {
			nc, pfd, err := socketpairConn()
			if err != nil {
				w.violate("client:socketpair", "%v", err)
				return
			}
			p := w.newPeer()
			p.fd = pfd
			msg := []byte(fmt.Sprintf("ping%d", i))
			sched.Go(fmt.Sprintf("user%d", i), func() {
				defer func() { done++ }()
				if _, err := cli.Enroll(nc); err != nil {
					w.violate("client:enroll", "Client.Enroll: %v", err)
					return
				}
				p.send(msg)
				p.recv(len(msg))
				if string(p.got) != string(msg) {
					w.violate("client:echo", "client connection echoed %q instead of %q", p.got, msg)
				}
			})
		}
		sched.BlockUntil(func() bool { return done >= 2 })
		sched.WaitIdle()
		w.runErr = cli.Stop()
		for _, p := range w.peers {
			p.recvAvail()
			p.close()
		}
	}
	w.checks = append(w.checks, checkEnd, func(w *world, out *sched.Outcome) (string, string) {
		for _, ci := range w.conns {
			if ci.opens != 1 || ci.closes != 1 || len(ci.afterClose) > 0 {
				return fmt.Sprintf("client connection #%d: OnOpen %d times, OnClose %d times, after close: %v", ci.id, ci.opens, ci.closes, ci.afterClose), "client:lifecycle"
			}
		}
		if len(w.conns) != 2 {
			return fmt.Sprintf("%d connections were opened (want 2)", len(w.conns)), "client:open"
		}
		if m, s := fdCheck(w, out); m != "" {
			return m, s
		}
		return "", ""
	})
	return cw
}

// clientUDPEmptyWorld: the peer of a connected client UDP socket sends a zero-length datagram. The
// default build serves such sockets through the stream path and takes the empty read for an end of
// stream (the connection is closed); the poll_opt build delivers an empty OnTraffic and keeps it.
// Either way: if the peer's datagram ends the connection, OnClose carries a non-nil error (C04:
// peer-induced closes are not reported as local ones), and the lifecycle stays exact.
func clientUDPEmptyWorld(et bool) sched.Scenario {
	w := newWorld("client-udp-empty-datagram")
	cw := &clientWorld{world: w}
	w.onTraffic = func(w *world, ci *connInfo) Action {
		b, _ := ci.c.Next(-1)
		ci.consumed = append(ci.consumed, b...)
		return None
	}
	closedByPeer := false
	cw.body = func(cw *clientWorld) {
		opts := []Option{WithLogger(nopLogger{}), WithNumEventLoop(1)}
		if et {
			opts = append(opts, WithEdgeTriggeredIO(true))
		}
		cli, err := NewClient(&mcHandler{w}, opts...)
		if err != nil {
			w.violate("client:new", "NewClient: %v", err)
			return
		}
		if err := cli.Start(); err != nil {
			w.violate("client:start", "Client.Start: %v", err)
			return
		}
		port := 30000 + (os.Getpid()%5000)*2
		pfd, _, err := mcsys.PUDPSocket(false, port)
		if err != nil {
			w.violate("client:harness", "udp socket: %v", err)
			return
		}
		nc, err := net.DialUDP("udp4", nil, &net.UDPAddr{IP: net.IPv4(127, 0, 0, 1), Port: port})
		if err != nil {
			w.violate("client:harness", "dial: %v", err)
			return
		}
		la := nc.LocalAddr().(*net.UDPAddr)
		if _, err := cli.Enroll(nc); err != nil {
			w.violate("client:enroll", "Client.Enroll(udp): %v", err)
			return
		}
		sched.BlockUntil(func() bool { return len(w.conns) > 0 && w.conns[0].opens > 0 })
		sched.WaitIdle()
		_ = mcsys.PSendto(pfd, []byte{}, &unix.SockaddrInet4{Port: la.Port, Addr: [4]byte{127, 0, 0, 1}})
		settle(nil)
		sched.WaitIdle()
		sched.WaitIdle()
		closedByPeer = w.conns[0].closes > 0
		w.runErr = cli.Stop()
		_ = mcsys.PClose(pfd)
	}
	w.checks = append(w.checks, checkEnd, func(w *world, out *sched.Outcome) (string, string) {
		if len(w.conns) != 1 {
			return fmt.Sprintf("%d connections were opened", len(w.conns)), "client-udp:open"
		}
		ci := w.conns[0]
		if ci.opens != 1 || ci.closes != 1 || len(ci.afterClose) > 0 {
			return fmt.Sprintf("connected client UDP socket: OnOpen %d times, OnClose %d times, after close: %v", ci.opens, ci.closes, ci.afterClose), "client-udp:lifecycle"
		}
		if closedByPeer && ci.closeErr == nil {
			return "the peer's zero-length datagram ended the connected client UDP socket and OnClose reported a nil error, as if the close had been requested locally", "client-udp:err-nil"
		}
		if m, s := fdCheck(w, out); m != "" {
			return m, s
		}
		return "", ""
	})
	return cw
}

func TestMC_C06(t *testing.T) {
	cfgs, byName := shutSchedConfigs()
	runEngineCheck(t, "C06", cfgs, byName, fmt.Sprintf("%d shutdown scenarios (sources: Engine.Stop, package Stop, Shutdown action from OnOpen/OnTraffic/OnClose/OnTick/OnBoot, Client.Stop; situations: idle, being accepted, pending outbound, async request in flight, ticker, two listeners) x {LT,ET}, every schedule within the delay bound listed per scenario", len(cfgs)))
}
