package gnet

// C14 — the connection registry is a faithful map from descriptor to live connection.
// Explicit-state search (engine E2) over the real connMatrix (map-based by default, compacting
// matrix under -tags gc_opt; the gc_opt variant is also built with a scaled-down geometry so
// that the closure of all reachable table layouts across row boundaries is enumerable).

import (
	"fmt"
	"os"
	"strconv"
	"strings"
	"testing"

	"github.com/panjf2000/gnet/v2/internal/gfd"
	"github.com/panjf2000/gnet/v2/internal/verifmc/seqmc"
)

type c14 struct {
	cm      connMatrix
	live    map[int]*conn
	fds     []int
	maxLive int
}

func (m *c14) Key() string { return c14Key(&m.cm) }

// c14Scalars: every scalar field of the real registry, whatever it is called (see seqmc.Scalars).
func c14Scalars(cm *connMatrix) string { return seqmc.Scalars(cm) }

func (m *c14) Expand() bool { return true }

func (m *c14) Ops() []seqmc.Op {
	var ops []seqmc.Op
	for _, fd := range m.fds {
		if _, ok := m.live[fd]; ok {
			ops = append(ops, seqmc.Op{N: "del", A: []int{fd}})
		} else if len(m.live) < m.maxLive {
			ops = append(ops, seqmc.Op{N: "add", A: []int{fd}})
		}
	}
	ops = append(ops, seqmc.Op{N: "iterate"}, seqmc.Op{N: "iterate+del"}, seqmc.Op{N: "iterate+stop", A: []int{1}})
	return ops
}

func (m *c14) check(op string) (string, string) {
	for _, fd := range m.fds {
		got, want := m.cm.getConn(fd), m.live[fd]
		if got != want {
			d := func(c *conn) string {
				if c == nil {
					return "nothing"
				}
				return fmt.Sprintf("the connection registered as fd %d", c.fd)
			}
			return fmt.Sprintf("after %s: lookup of fd %d yields %s, want %s [%s]", op, fd, d(got), d(want), c14Key(&m.cm)), c14Variant + ":" + opBase(op) + ":lookup"
		}
	}
	if got := m.cm.getConn(1 << 20); got != nil {
		return fmt.Sprintf("after %s: lookup of a never registered fd yields a connection", op), c14Variant + ":" + opBase(op) + ":phantom"
	}
	if n := int(m.cm.loadCount()); n != len(m.live) {
		return fmt.Sprintf("after %s: count %d, %d live connections [%s]", op, n, len(m.live), c14Key(&m.cm)), c14Variant + ":" + opBase(op) + ":count"
	}
	if msg := c14Extra(&m.cm, m.live); msg != "" {
		return fmt.Sprintf("after %s: %s [%s]", op, msg, c14Key(&m.cm)), c14Variant + ":" + opBase(op) + ":index"
	}
	return "", ""
}

func opBase(op string) string {
	if i := strings.IndexByte(op, '('); i >= 0 {
		return op[:i]
	}
	return op
}

func (m *c14) Apply(op seqmc.Op) (string, string) {
	switch op.N {
	case "add":
		c := &conn{fd: op.A[0]}
		m.cm.addConn(c, 1)
		m.live[op.A[0]] = c
	case "del":
		c := m.live[op.A[0]]
		m.cm.delConn(c)
		delete(m.live, op.A[0])
	case "iterate", "iterate+del", "iterate+stop":
		seen := map[*conn]int{}
		visits := 0
		countMsg := ""
		m.cm.iterate(func(c *conn) bool {
			seen[c]++
			visits++
			if op.N == "iterate+del" {
				m.cm.delConn(c)
				delete(m.live, c.fd)
			}
			// the count is also right while an iteration is under way (CountConnections reads it
			// while the shutdown iteration removes connections)
			if n := int(m.cm.loadCount()); n != len(m.live) && countMsg == "" {
				countMsg = fmt.Sprintf("%s: after %d visits the count is %d with %d live connections", op.N, visits, n, len(m.live))
			}
			if op.N == "iterate+stop" && visits >= op.A[0] {
				return false
			}
			return true
		})
		if countMsg != "" {
			return countMsg, c14Variant + ":" + op.N + ":count-during"
		}
		for c, n := range seen {
			if n != 1 {
				return fmt.Sprintf("%s visited fd %d %d times", op.N, c.fd, n), c14Variant + ":" + op.N + ":twice"
			}
		}
		switch op.N {
		case "iterate":
			if len(seen) != len(m.live) {
				return fmt.Sprintf("iterate visited %d of %d live connections", len(seen), len(m.live)), c14Variant + ":iterate:missed"
			}
			for _, c := range m.live {
				if seen[c] != 1 {
					return fmt.Sprintf("iterate did not visit fd %d", c.fd), c14Variant + ":iterate:missed"
				}
			}
		case "iterate+del":
			if len(m.live) != 0 {
				return fmt.Sprintf("iterate with removal left %d live connections unvisited", len(m.live)), c14Variant + ":iterate+del:missed"
			}
		case "iterate+stop":
			want := op.A[0]
			if len(m.live) < want {
				want = len(m.live)
			}
			if visits != want {
				return fmt.Sprintf("iterate stopped by the callback after %d visits made %d", want, visits), c14Variant + ":iterate+stop:count"
			}
		}
	default:
		panic("unknown op")
	}
	return m.check(op.String())
}

func newC14(fds []int, maxLive int) func() seqmc.Instance {
	return func() seqmc.Instance {
		m := &c14{live: map[int]*conn{}, fds: fds, maxLive: maxLive}
		m.cm.init()
		return m
	}
}

func c14Scripted(res *seqmc.Result) {
	// populations crossing the row boundary of the real geometry (65536 columns)
	if c14Variant != "matrix" || gfd.ConnMatrixColumnMax != 65536 {
		// the map variant gets the same script: it is cheap and checks big populations too
	}
	const base = 10
	n := 65536 + 2
	for _, victim := range []string{"first", "middle", "boundary-1", "boundary", "last", "all-reverse-8"} {
		m := newC14(nil, 1<<30)().(*c14)
		for i := 0; i < n; i++ {
			c := &conn{fd: base + i}
			m.cm.addConn(c, 0)
			m.live[base+i] = c
		}
		probe := []int{base, base + 1, base + 32767, base + 65534, base + 65535, base + 65536, base + 65537}
		m.fds = probe
		var dels []int
		switch victim {
		case "first":
			dels = []int{base}
		case "middle":
			dels = []int{base + 32767}
		case "boundary-1":
			dels = []int{base + 65535}
		case "boundary":
			dels = []int{base + 65536}
		case "last":
			dels = []int{base + 65537}
		case "all-reverse-8":
			for i := 0; i < 8; i++ {
				dels = append(dels, base+65537-i)
			}
		}
		hist := []seqmc.Op{{N: "populate", A: []int{n}}}
		fail := func(msg, sig string) {
			res.Violations = append(res.Violations, seqmc.Violation{Property: "C14", Scenario: "scripted/" + victim, Sig: sig, Msg: msg, History: hist, Replays: 5})
		}
		if msg, sig := m.check("populate"); msg != "" {
			fail(msg, sig)
			continue
		}
		bad := false
		for _, fd := range dels {
			hist = append(hist, seqmc.Op{N: "del", A: []int{fd}})
			if msg, sig := m.Apply(seqmc.Op{N: "del", A: []int{fd}}); msg != "" {
				fail(msg, sig)
				bad = true
				break
			}
			res.Transitions++
		}
		if bad {
			continue
		}
		// re-register the removed numbers, then one more, then the shutdown pattern
		for _, fd := range dels {
			hist = append(hist, seqmc.Op{N: "add", A: []int{fd}})
			if msg, sig := m.Apply(seqmc.Op{N: "add", A: []int{fd}}); msg != "" {
				fail(msg, sig)
				bad = true
				break
			}
			res.Transitions++
		}
		if bad {
			continue
		}
		// every live connection still resolves (full scan, not only the probes)
		for fd, c := range m.live {
			if m.cm.getConn(fd) != c {
				fail(fmt.Sprintf("after %s: lookup of fd %d does not yield its connection", seqmc.HistString(hist), fd), c14Variant+":scripted:lookup")
				bad = true
				break
			}
		}
		if bad {
			continue
		}
		hist = append(hist, seqmc.Op{N: "iterate+del"})
		if msg, sig := m.Apply(seqmc.Op{N: "iterate+del"}); msg != "" {
			fail(msg, sig)
			continue
		}
		// reusable afterwards
		hist = append(hist, seqmc.Op{N: "add", A: []int{base}})
		if msg, sig := m.Apply(seqmc.Op{N: "add", A: []int{base}}); msg != "" {
			fail(msg, sig)
			continue
		}
		res.Transitions += 3
		res.States += int64(len(dels)*2 + 3)
		res.Evaluations += int64(n + len(dels)*2 + 2)
		res.Distinct += int64(len(dels)*2 + 3)
	}
}

func TestMC_C14(t *testing.T) {
	thorough := seqmc.Tier() == "thorough"
	scaled := gfd.ConnMatrixColumnMax != 65536
	var res seqmc.Result
	res.Property = "C14"
	if rp := seqmc.ReplayFile(); rp != "" {
		v, err := seqmc.LoadViolation(rp)
		if err != nil {
			t.Fatal(err)
		}
		if strings.HasPrefix(v.Scenario, "scripted/") {
			var r2 seqmc.Result
			c14Scripted(&r2)
			for _, x := range r2.Violations {
				if x.Sig == v.Sig {
					fmt.Printf("REPLAY-VIOLATION property=C14 sig=%s %s\n", x.Sig, x.Msg)
					t.Fail()
					return
				}
			}
			fmt.Println("REPLAY-OK property=C14")
			return
		}
		fds := []int{3, 4, 5, 6, 7, 8, 9, 10, 11, 12}
		_, msg, sig, at := seqmc.Replay(newC14(fds, 100), v.History)
		if msg != "" {
			fmt.Printf("REPLAY-VIOLATION property=C14 sig=%s step=%d %s\n", sig, at, msg)
			t.Fail()
			return
		}
		fmt.Println("REPLAY-OK property=C14")
		return
	}
	nf := 5
	depth := 7
	if thorough {
		nf, depth = 6, 9
	}
	if scaled {
		// closure: every reachable layout of up to maxLive connections in the small geometry
		nf = 6
		if v, err := strconv.Atoi(os.Getenv("MC_C14_FDS")); err == nil {
			nf = v
		}
		depth = 1 << 20
	}
	var fds []int
	for i := 0; i < nf; i++ {
		fds = append(fds, 3+i)
	}
	maxLive := nf
	if c14Capacity() <= nf {
		maxLive = c14Capacity() - 1
	}
	name := fmt.Sprintf("%s/geometry=%dx%d/fds=%d", c14Variant, gfd.ConnMatrixRowMax, gfd.ConnMatrixColumnMax, nf)
	st, vs := seqmc.Run(seqmc.Config{Property: "C14", Scenario: name, New: newC14(fds, maxLive), Depth: depth, Deadline: seqmc.Deadline(),
		Outcome: func(in seqmc.Instance) string { return fmt.Sprint(len(in.(*c14).live)) }})
	res.Add(st, vs)
	if !scaled {
		c14Scripted(&res)
	}
	res.Exhaustive = len(res.Caps) == 0
	if scaled {
		res.Bounds = []string{fmt.Sprintf("%s: closure of all reachable registry states with descriptors %v (<= %d live) under add/del/iterate/iterate+del/iterate+stop, closed=%v", name, fds, maxLive, st.Closed)}
	} else {
		res.Bounds = []string{fmt.Sprintf("%s: all sequences of length <= %d over descriptors %v; plus scripted populations of 65538 connections with first/middle/boundary/last removals, re-registration and the shutdown pattern", name, depth, fds)}
	}
	res.Samples = []string{"add(3); add(4); del(3); add(3); iterate+del; add(5)", "populate(65538); del(65545); add(65545); iterate+del; add(10)"}
	if err := res.Write(); err != nil {
		t.Fatal(err)
	}
}
