//go:build verifmc

package gnet

// C01 — inbound stream integrity under any segmentation and consumption pattern.

import (
	"bytes"
	"errors"
	"fmt"
	"os"
	"strconv"
	"strings"
	"testing"

	"golang.org/x/sys/unix"

	"github.com/panjf2000/gnet/v2/internal/verifmc/mcsys"
	"github.com/panjf2000/gnet/v2/internal/verifmc/sched"
	"github.com/panjf2000/gnet/v2/internal/verifmc/seqmc"
	"github.com/panjf2000/gnet/v2/pkg/buffer/ring"
	bsPool "github.com/panjf2000/gnet/v2/pkg/pool/byteslice"
	rbPool "github.com/panjf2000/gnet/v2/pkg/pool/ringbuffer"
)

func streamByte(i int) byte { return byte((i*131 + i/251*7 + 17) % 251) }

func streamBytes(from, n int) []byte {
	b := make([]byte, n)
	for i := range b {
		b[i] = streamByte(from + i)
	}
	return b
}

type inCfg struct {
	name    string
	mode    string // LT, ET, ETchunk
	segs    []int
	finWith bool // close immediately after the last write (FIN together with the data)
	chain   bool // allow a second consumption step per callback
	client  bool
	script  []string // fixed consumption step per callback (one callback per segment: the peer waits); no choices
}

type inState struct {
	total     int
	lastView  []byte   // slice returned by the previous Next/Peek ...
	lastWant  []byte   // ... and what it must still contain when the next Reader call is made
	nextViews [][]byte // slices returned by Next in this callback: valid until the callback returns
	nextWants [][]byte
	offered   int // max over callbacks of consumed+buffered
	closeRest []byte
	closeSeen bool
}

// churnPools plays an unrelated connection: it takes buffers of the sizes in play from the shared
// byte-slice and ring-buffer pools, scribbles over them and puts them back.
func churnPools(n int) {
	// several buffers of each class are held at the same time: sync.Pool hands out its private slot
	// first, so a single Get/Put pair would keep receiving its own buffer back
	var held [][]byte
	for _, k := range []int{n, 1, 512, 1024, 2048, 4096} {
		if k <= 0 {
			continue
		}
		for r := 0; r < 4; r++ {
			b := bsPool.Get(k)
			full := b[:cap(b)]
			for i := range full {
				full[i] = 0xA5
			}
			held = append(held, b)
		}
	}
	for _, b := range held {
		bsPool.Put(b)
	}
	var rings []*ring.Buffer
	for i := 0; i < 3; i++ {
		rb := rbPool.Get()
		_, _ = rb.Write(bytes.Repeat([]byte{0x5A}, 1500))
		rings = append(rings, rb)
	}
	for _, rb := range rings {
		rbPool.Put(rb)
	}
}

type limitWriter struct {
	limit int
	got   []byte
}

func (l *limitWriter) Write(p []byte) (int, error) {
	if l.limit < 0 {
		l.got = append(l.got, p...)
		return len(p), nil
	}
	n := l.limit - len(l.got)
	if n > len(p) {
		n = len(p)
	}
	l.got = append(l.got, p[:n]...)
	if n < len(p) {
		return n, errors.New("writer full")
	}
	return n, nil
}

var inOps = []string{"next-all", "nothing", "read1", "read-all", "read-all+8", "next1", "peek1+discard1", "peek-all+discard-all", "peek-across+discard", "peek-all+discard1", "discard1", "writeto-all", "writeto-short",
	// composite steps (one choice): a slice obtained from Next must survive later calls in the same callback
	"next1,discard1", "next1,peek-all+discard1", "next1,next-all"}

// consume performs one consumption step chosen by the explorer and checks it positionally.
func (w *world) consume(ci *connInfo, st *inState, op string) {
	c := ci.c
	fail := func(sig, format string, a ...interface{}) {
		w.violate("in:"+sig, "connection #%d, %s: %s", ci.id, op, fmt.Sprintf(format, a...))
	}
	// views handed out earlier must be intact: Peek's until the next Discard, Next's until the callback returns
	if st.lastView != nil && !bytes.Equal(st.lastView, st.lastWant) {
		fail("view-clobbered", "the slice returned by the previous Peek changed although no Discard was called")
	}
	for i := range st.nextViews {
		if !bytes.Equal(st.nextViews[i], st.nextWants[i]) {
			fail("view-clobbered", "a slice returned by Next earlier in this callback changed")
		}
	}
	st.lastView, st.lastWant = nil, nil
	buffered := c.InboundBuffered()
	pos := len(ci.consumed)
	take := func(b []byte, what string) {
		want := streamBytes(pos, len(b))
		if !bytes.Equal(b, want) {
			i := 0
			for i < len(b) && b[i] == want[i] {
				i++
			}
			fail("content", "%s returned %d bytes that are not bytes %d.. of the peer's stream (first difference at stream offset %d)", what, len(b), pos, pos+i)
		}
		ci.consumed = append(ci.consumed, b...)
		pos = len(ci.consumed)
	}
	view := func(b []byte, what string) {
		want := streamBytes(pos, len(b))
		if !bytes.Equal(b, want) {
			fail("content", "%s shows %d bytes that are not bytes %d.. of the peer's stream", what, len(b), pos)
		}
		st.lastView, st.lastWant = b, append([]byte{}, b...)
	}
	defer func() {
		// other connections (on other loops) use the same global pools all the time: whatever the
		// framework handed to this handler must not be memory it has already given back
		if st.lastView != nil || len(st.nextViews) > 0 {
			churnPools(len(st.lastView) + 8)
			if st.lastView != nil && !bytes.Equal(st.lastView, st.lastWant) {
				fail("view-recycled", "the slice returned by Peek was overwritten by an unrelated user of the shared buffer pools while the handler still holds it")
			}
			for i := range st.nextViews {
				if os.Getenv("MC_DEBUG_PRINT") != "" {
					fmt.Printf("DBG op=%s view[%d] len=%d cap=%d ptr=%p cache=%p/%d\n", op, i, len(st.nextViews[i]), cap(st.nextViews[i]), &st.nextViews[i][:1][0], ci.c.(*conn).cache, len(ci.c.(*conn).cache))
				}
				churnPools(len(st.nextViews[i]))
				if !bytes.Equal(st.nextViews[i], st.nextWants[i]) {
					fail("view-recycled", "a slice returned by Next was overwritten by an unrelated user of the shared buffer pools while the handler still holds it (it had been given back to a pool)")
				}
			}
		}
	}()
	if i := strings.IndexByte(op, ','); i > 0 {
		w.consume(ci, st, op[:i])
		w.consume(ci, st, op[i+1:])
		return
	}
	if strings.HasPrefix(op, "discard:") || strings.HasPrefix(op, "next:") {
		n, _ := strconv.Atoi(op[strings.IndexByte(op, ':')+1:])
		want := n
		if buffered < want {
			want = buffered
		}
		if strings.HasPrefix(op, "discard:") {
			m, err := c.Discard(n)
			if m != want || err != nil {
				fail("count", "Discard(%d) = %d, %v with %d buffered", n, m, err, buffered)
			}
			ci.consumed = append(ci.consumed, streamBytes(pos, m)...)
			return
		}
		b, err := c.Next(n)
		if n > buffered {
			if err == nil {
				fail("count", "Next(%d) with %d buffered returned %d bytes and no error", n, buffered, len(b))
			}
			return
		}
		if err != nil || len(b) != n {
			fail("count", "Next(%d) = %d bytes, %v with %d buffered", n, len(b), err, buffered)
		}
		take(b, fmt.Sprintf("Next(%d)", n))
		st.nextViews, st.nextWants = append(st.nextViews, b), append(st.nextWants, append([]byte{}, b...))
		return
	}
	switch op {
	case "nothing":
	case "next-all":
		b, err := c.Next(-1)
		if err != nil || len(b) != buffered {
			fail("count", "Next(-1) = %d bytes, %v with %d buffered", len(b), err, buffered)
		}
		take(b, "Next(-1)")
		st.nextViews, st.nextWants = append(st.nextViews, b), append(st.nextWants, append([]byte{}, b...))
	case "next1":
		if buffered >= 1 {
			b, err := c.Next(1)
			if err != nil || len(b) != 1 {
				fail("count", "Next(1) = %d bytes, %v", len(b), err)
			}
			take(b, "Next(1)")
			st.nextViews, st.nextWants = append(st.nextViews, b), append(st.nextWants, append([]byte{}, b...))
		}
	case "read1", "read-all", "read-all+8":
		n := 1
		if op == "read-all" {
			n = buffered
		} else if op == "read-all+8" {
			n = buffered + 8
		}
		p := make([]byte, n)
		m, err := c.Read(p)
		want := n
		if buffered < want {
			want = buffered
		}
		if m != want {
			fail("count", "Read(%d) = %d, %v with %d buffered", n, m, err, buffered)
		}
		take(p[:m], "Read")
	case "peek1+discard1", "peek-all+discard-all", "peek-across+discard", "peek-all+discard1":
		k := buffered
		switch op {
		case "peek1+discard1":
			k = 1
		case "peek-across+discard":
			k = buffered - len(ci.c.(*conn).buffer) + 1 // one byte beyond the leftover ring part
			if k > buffered {
				k = buffered
			}
		}
		if k < 1 || buffered < 1 {
			return
		}
		b, err := c.Peek(k)
		if err != nil || len(b) != k {
			fail("count", "Peek(%d) = %d bytes, %v with %d buffered", k, len(b), err, buffered)
			return
		}
		view(b, fmt.Sprintf("Peek(%d)", k))
		if c.InboundBuffered() != buffered {
			fail("peek-consumed", "Peek changed InboundBuffered from %d to %d", buffered, c.InboundBuffered())
		}
		d := k
		if op == "peek-all+discard1" {
			d = 1
		}
		keep := append([]byte{}, b[:d]...)
		n, err := c.Discard(d)
		if n != d || err != nil {
			fail("count", "Discard(%d) = %d, %v", d, n, err)
		}
		st.lastView, st.lastWant = nil, nil
		take(keep, "Peek+Discard")
	case "discard1":
		if buffered >= 1 {
			b, _ := c.Peek(1)
			keep := append([]byte{}, b...)
			n, err := c.Discard(1)
			if n != 1 || err != nil {
				fail("count", "Discard(1) = %d, %v", n, err)
			}
			take(keep, "Discard(1)")
		}
	case "writeto-all", "writeto-short":
		lw := &limitWriter{limit: -1}
		if op == "writeto-short" {
			lw.limit = 1
		}
		n, _ := c.WriteTo(lw)
		if int(n) != len(lw.got) {
			fail("count", "WriteTo reported %d bytes, the writer accepted %d", n, len(lw.got))
		}
		take(lw.got, "WriteTo")
	}
}

func (w *world) inInvariant(ci *connInfo, st *inState, where string) {
	delivered := fwReadBytes(ci.fd)
	got := len(ci.consumed) + ci.c.InboundBuffered()
	if got != delivered {
		w.violate("in:accounting", "connection #%d %s: consumed %d + InboundBuffered %d != %d bytes delivered by read(2) so far", ci.id, where, len(ci.consumed), ci.c.InboundBuffered(), delivered)
	}
	if got > st.offered {
		st.offered = got
	}
}

func inWorld(c inCfg) *world {
	w := newWorld(c.name)
	w.opts = append(w.opts, WithReadBufferCap(1024))
	switch c.mode {
	case "ET":
		w.opts = append(w.opts, WithEdgeTriggeredIO(true))
	case "ETchunk":
		w.opts = append(w.opts, WithEdgeTriggeredIOChunk(1024))
	case "ETchunk<buf":
		// the per-round chunk limit is smaller than the read buffer
		w.opts = append(w.opts[:0], WithReadBufferCap(4096), WithEdgeTriggeredIOChunk(1024))
	}
	total := 0
	for _, s := range c.segs {
		total += s
	}
	st := &inState{total: total}
	if c.mode == "LT" && c.script == nil {
		w.deviate = func(site string, fd int, n int) []string {
			if site == "read" && n > 1 && mcsys.Owner(fd) == "fw" {
				return []string{"short1", "shorthalf"}
			}
			return nil
		}
	}
	w.onTraffic = func(w *world, ci *connInfo) Action {
		w.inInvariant(ci, st, "at OnTraffic entry")
		var op string
		if c.script != nil {
			op = "next-all"
			if ci.traffics-1 < len(c.script) {
				op = c.script[ci.traffics-1]
			}
		} else {
			op = inOps[sched.Choose(len(inOps), "consume")]
		}
		if f := os.Getenv("MC_FORCE"); f != "" { // development aid: force the consumption steps
			steps := strings.Split(f, ";")
			if ci.traffics-1 < len(steps) {
				op = steps[ci.traffics-1]
			}
		}
		w.consume(ci, st, op)
		w.inInvariant(ci, st, "after "+op)
		if c.chain && op != "next-all" && c.script == nil {
			second := []string{"nothing", "next-all", "peek-all+discard1", "read1", "next1", "discard1"}
			op2 := second[sched.Choose(len(second), "consume2")]
			w.consume(ci, st, op2)
			w.inInvariant(ci, st, "after "+op+","+op2)
		}
		if st.lastView != nil && !bytes.Equal(st.lastView, st.lastWant) {
			w.violate("in:view-clobbered", "connection #%d: the slice returned by Peek changed before the callback returned", ci.id)
		}
		for i := range st.nextViews {
			if !bytes.Equal(st.nextViews[i], st.nextWants[i]) {
				w.violate("in:view-clobbered", "connection #%d: a slice returned by Next changed before the callback returned", ci.id)
			}
		}
		st.lastView, st.lastWant, st.nextViews, st.nextWants = nil, nil, nil, nil
		return None
	}
	w.onClose = func(w *world, ci *connInfo, err error) Action {
		st.closeSeen = true
		// what is still readable at close time counts as "offered"
		if b, perr := ci.c.Peek(-1); perr == nil {
			st.closeRest = append([]byte{}, b...)
		}
		got := len(ci.consumed) + len(st.closeRest)
		if got > st.offered {
			st.offered = got
		}
		return None
	}
	w.script = func(w *world) {
		done := 0
		w.peerThread("peer", &done, func(p *peer) {
			if !p.connect() {
				return
			}
			off := 0
			for i, s := range c.segs {
				p.send(streamBytes(off, s))
				off += s
				if c.script != nil {
					// one callback per segment: wait until this one has been handled
					k := i + 1
					sched.BlockUntil(func() bool { return len(w.conns) > 0 && w.conns[0].traffics >= k })
					sched.WaitIdle()
				}
				if i == len(c.segs)-1 && c.finWith {
					p.close()
				}
			}
			if !c.finWith {
				// the peer stays open: the engine must reach quiescence with nothing left unread
				sched.WaitIdle()
				if len(w.conns) > 0 && w.conns[0].closes == 0 {
					if n, err := unix.IoctlGetInt(w.conns[0].fd, unix.TIOCINQ); err == nil && n > 0 {
						w.violate("in:left-unread", "the system is quiescent, the peer is still connected, and %d readable bytes were never handed to OnTraffic", n)
					}
					if st.offered != total {
						w.violate("in:not-offered", "the system is quiescent with the peer still connected: %d of %d bytes sent were offered to the handler", st.offered, total)
					}
				}
				p.close()
			}
		})
		w.ctl(&done, 1, nil)
	}
	w.checks = append(w.checks, checkEnd, func(w *world, out *sched.Outcome) (string, string) {
		if len(w.conns) == 0 {
			return "", ""
		}
		ci := w.conns[0]
		want := streamBytes(0, len(ci.consumed))
		if !bytes.Equal(ci.consumed, want) {
			return fmt.Sprintf("the bytes consumed over the life of the connection (%d) are not a prefix of the peer's stream", len(ci.consumed)), "in:content"
		}
		if ci.closes > 0 && ci.closeErr != nil && w.peers[0].sent == total {
			// orderly close after everything was sent: all of it must have been offered before OnClose
			if st.offered != total {
				return fmt.Sprintf("the peer sent %d bytes and closed; only %d were offered to the handler before OnClose(%v)", total, st.offered, ci.closeErr), "in:lost-before-close"
			}
			if !bytes.Equal(st.closeRest, streamBytes(len(ci.consumed), len(st.closeRest))) {
				return "the unconsumed rest visible in OnClose is not the continuation of the stream", "in:content"
			}
		}
		return "", ""
	})
	return w
}

// pendingOutWorld: the server has output buffered in user space (the kernel buffer is full), the
// peer drains what the kernel holds, sends its last bytes and closes in an orderly way.
func pendingOutWorld(mode string) *world {
	w := newWorld("in/pending-outbound-then-close/" + mode)
	w.opts = append(w.opts, WithReadBufferCap(1024))
	if mode == "ET" {
		w.opts = append(w.opts, WithEdgeTriggeredIO(true))
	}
	total := 15
	st := &inState{total: total}
	wrote := false
	w.onTraffic = func(w *world, ci *connInfo) Action {
		w.inInvariant(ci, st, "at OnTraffic entry")
		w.consume(ci, st, "next-all")
		w.inInvariant(ci, st, "after next-all")
		st.lastView, st.lastWant, st.nextViews, st.nextWants = nil, nil, nil, nil
		if !wrote {
			wrote = true
			_, _ = ci.c.Write(make([]byte, 400*1024))
		}
		return None
	}
	w.onClose = func(w *world, ci *connInfo, err error) Action {
		if b, perr := ci.c.Peek(-1); perr == nil {
			st.closeRest = append([]byte{}, b...)
		}
		if got := len(ci.consumed) + len(st.closeRest); got > st.offered {
			st.offered = got
		}
		return None
	}
	w.script = func(w *world) {
		done := 0
		w.peerThread("peer", &done, func(p *peer) {
			if !p.connect() {
				return
			}
			p.send(streamBytes(0, 10))
			sched.BlockUntil(func() bool { return len(w.conns) > 0 && w.conns[0].closes == 0 && w.conns[0].c.OutboundBuffered() > 0 })
			p.recvAvail() // the peer has read everything the kernel held: its close below is orderly
			p.send(streamBytes(10, 5))
			p.close()
		})
		w.ctl(&done, 1, nil)
	}
	w.checks = append(w.checks, checkEnd, func(w *world, out *sched.Outcome) (string, string) {
		if len(w.conns) == 0 {
			return "", ""
		}
		ci := w.conns[0]
		if !bytes.Equal(ci.consumed, streamBytes(0, len(ci.consumed))) {
			return "consumed bytes are not a prefix of the peer's stream", "in:content"
		}
		if ci.closes > 0 && w.peers[0].sent == total && w.peers[0].rerr == nil && st.offered != total {
			return fmt.Sprintf("the peer sent %d bytes and closed after reading everything available; only %d were offered to the handler before OnClose(%v) while output was still pending", total, st.offered, ci.closeErr), "in:lost-before-close:pending-outbound"
		}
		return "", ""
	})
	return w
}

// inClientWorld: the same oracle on the client side: a Client enrols one end of a socketpair, the
// peer thread writes the stream into the other end.
func inClientWorld(c inCfg) sched.Scenario {
	w := inWorld(c)
	opts := append([]Option{WithLogger(nopLogger{}), WithNumEventLoop(1)}, w.opts...)
	cw := &clientWorld{world: w}
	cw.body = func(cw *clientWorld) {
		cli, err := NewClient(&mcHandler{w}, opts...)
		if err != nil {
			w.violate("client:new", "NewClient: %v", err)
			return
		}
		if err := cli.Start(); err != nil {
			w.violate("client:start", "Client.Start: %v", err)
			return
		}
		w.booted = true
		nc, pfd, err := socketpairConn()
		if err != nil {
			w.violate("client:socketpair", "%v", err)
			return
		}
		p := w.newPeer()
		p.fd = pfd
		done := false
		sched.Go("peer", func() {
			off := 0
			for i, n := range c.segs {
				p.send(streamBytes(off, n))
				off += n
				if i == len(c.segs)-1 && c.finWith {
					p.close()
				}
			}
			if !c.finWith {
				sched.WaitIdle()
				p.close()
			}
			done = true
		})
		if _, err := cli.Enroll(nc); err != nil {
			w.violate("client:enroll", "Client.Enroll: %v", err)
		}
		sched.BlockUntil(func() bool { return done })
		sched.WaitIdle()
		w.runErr = cli.Stop()
	}
	return cw
}

func inConfigs(thorough bool) []inCfg {
	var out []inCfg
	segs := [][]int{{500, 600}, {1024, 1}, {1500}, {1, 2, 1024}, {600, 600, 600}}
	if thorough {
		segs = append(segs, []int{1, 1, 1}, []int{1024, 1024, 2}, []int{500, 600, 1500, 1}, []int{2, 1500, 500})
	}
	// bursts larger than a chunk limit that is smaller than the read buffer
	for _, s := range [][]int{{1500}, {1024, 1024, 2}, {600, 600, 600}} {
		for _, fin := range []bool{false, true} {
			out = append(out, inCfg{name: fmt.Sprintf("in/%s/%v/fin=%v", "ETchunk<buf", s, fin), mode: "ETchunk<buf", segs: s, finWith: fin, chain: thorough})
		}
	}
	for _, mode := range []string{"LT", "ET", "ETchunk"} {
		for i, s := range segs {
			for _, fin := range []bool{false, true} {
				if !thorough && fin && i%2 == 1 {
					continue
				}
				out = append(out, inCfg{name: fmt.Sprintf("in/%s/%v/fin=%v", mode, s, fin), mode: mode, segs: s, finWith: fin, chain: thorough})
			}
		}
	}
	return out
}

func inSchedConfigs() ([]sched.Config, func(string) *sched.Config) {
	thorough := seqmc.Tier() == "thorough"
	bounds := []sched.Bound{{PB: 0, DB: 0}, {PB: 0, DB: 1}, {PB: 1, DB: 1}, {PB: 0, DB: 2}}
	if thorough {
		bounds = append(bounds, sched.Bound{PB: 1, DB: 2}, sched.Bound{PB: 2, DB: 1}, sched.Bound{PB: 2, DB: 2})
	}
	var out []sched.Config
	// scripted histories (no consumption choices, schedule deviations only): states of the inbound ring
	// that the choice-bounded scenarios below do not reach. They come FIRST: their byte counts assume
	// the 1024-byte ring a fresh ring-buffer pool hands out; later scenarios leave grown rings in the
	// process-wide pool, with which the leftover would not wrap
	for _, mode := range []string{"LT", "ET"} {
		for _, sc := range []inCfg{
			// the leftover ring (1024) wraps: 800 kept, 700 discarded, 100+600 more kept; then one Peek
			// over ring head, ring tail and the fresh read buffer
			{name: "wrapped-ring+peek-all", segs: []int{800, 100, 600, 50}, script: []string{"nothing", "discard:700", "nothing", "peek-all+discard-all"}},
			{name: "wrapped-ring+peek-across", segs: []int{800, 100, 600, 50}, script: []string{"nothing", "discard:700", "nothing", "peek-across+discard"}},
			{name: "wrapped-ring+read-all", segs: []int{800, 100, 600, 50}, script: []string{"nothing", "discard:700", "nothing", "read-all"}},
			{name: "wrapped-ring+discard-across-end", segs: []int{800, 100, 600, 50}, script: []string{"nothing", "discard:700", "nothing", "discard:500", "next-all"}},
			// Next(n) and Read(p) spanning a short leftover and the fresh read buffer
			{name: "next-across-leftover", segs: []int{10, 20, 5}, script: []string{"nothing", "next:16", "next-all"}},
			{name: "read-across-leftover", segs: []int{10, 20, 5}, script: []string{"nothing", "read-all", "next-all"}},
		} {
			c := sc
			c.mode = mode
			c.name = "in/scripted/" + mode + "/" + sc.name
			out = append(out, sched.Config{Property: "C01", Name: c.name, Bounds: engineBounds(1, 2, 0), Horizon: 20000, Deadline: seqmc.Deadline(), DelayBounded: true, New: func() sched.Scenario { return inWorld(c) }})
		}
	}
	for _, c := range inConfigs(true) {
		c := c
		c.chain = true // a second consumption step per callback in both tiers
		out = append(out, sched.Config{Property: "C01", Name: c.name, Bounds: bounds, Horizon: 20000, Deadline: seqmc.Deadline(), DelayBounded: true, New: func() sched.Scenario { return inWorld(c) }})
	}
	for _, mode := range []string{"LT", "ET"} {
		for _, segs := range [][]int{{500, 600}, {1500}} {
			c := inCfg{name: fmt.Sprintf("in/client/%s/%v/fin=true", mode, segs), mode: mode, segs: segs, finWith: true, chain: true}
			out = append(out, sched.Config{Property: "C01", Name: c.name, Bounds: bounds, Horizon: 20000, Deadline: seqmc.Deadline(), DelayBounded: true, New: func() sched.Scenario { return inClientWorld(c) }})
		}
	}
	for _, mode := range []string{"LT", "ET"} {
		mode := mode
		out = append(out, sched.Config{Property: "C01", Name: "in/pending-outbound-then-close/" + mode, Bounds: engineBounds(1, 2, 0), Horizon: 20000, Deadline: seqmc.Deadline(), DelayBounded: true,
			New: func() sched.Scenario { return pendingOutWorld(mode) }})
	}
	if !thorough {
		keep := map[string]bool{"in/pending-outbound-then-close/LT": true, "in/pending-outbound-then-close/ET": true}
		for _, c := range out {
			if strings.HasPrefix(c.Name, "in/scripted/") {
				keep[c.Name] = true
			}
		}
		for _, c := range out {
			if strings.HasPrefix(c.Name, "in/client/") {
				keep[c.Name] = true
			}
		}
		for _, c := range inConfigs(false) {
			keep[c.name] = true
		}
		var q []sched.Config
		for _, c := range out {
			if keep[c.Name] {
				q = append(q, c)
			}
		}
		all := out
		return q, func(name string) *sched.Config {
			for i := range all {
				if all[i].Name == name {
					return &all[i]
				}
			}
			return nil
		}
	}
	return out, func(name string) *sched.Config {
		for i := range out {
			if out[i].Name == name {
				return &out[i]
			}
		}
		return nil
	}
}

func TestMC_C01(t *testing.T) {
	cfgs, byName := inSchedConfigs()
	runEngineCheck(t, "C01", cfgs, byName, fmt.Sprintf("%d (mode, segmentation, FIN placement) configurations on unix sockets with a 1024-byte read buffer: every schedule and every per-callback consumption choice (%d operations) and LT short-read deviation within the (delay, deviation) bounds listed per scenario", len(cfgs), len(inOps)))
}
