package gnet

// C16 — address parsing and option normalisation are total and exact (engine E3: bounded-
// exhaustive enumeration of strings over an alphabet, of a grammar, and of integer options).

import (
	"errors"
	"fmt"
	"path"
	"runtime"
	"strings"
	"sync"
	"sync/atomic"
	"testing"

	"github.com/panjf2000/gnet/v2/internal/verifmc/seqmc"
	errorx "github.com/panjf2000/gnet/v2/pkg/errors"
)

var c16Schemes = map[string]bool{"tcp": true, "tcp4": true, "tcp6": true, "udp": true, "udp4": true, "udp6": true, "unix": true}

func c16Parse(s string) (proto, addr string, err error, pmsg string) {
	defer func() {
		if r := recover(); r != nil {
			pmsg = fmt.Sprint(r)
		}
	}()
	proto, addr, err = parseProtoAddr(s)
	return
}

func onlyChars(s, set string) bool {
	for i := 0; i < len(s); i++ {
		if strings.IndexByte(set, s[i]) < 0 {
			return false
		}
	}
	return true
}

// c16CheckArbitrary is the oracle for arbitrary strings (prefix+body).
func c16CheckArbitrary(prefix, body string) (string, string) {
	in := prefix + body
	proto, addr, err, pmsg := c16Parse(in)
	if pmsg != "" {
		return fmt.Sprintf("parseProtoAddr(%q) panicked: %s", in, pmsg), "parse:panic"
	}
	if err == nil {
		if !c16Schemes[proto] {
			return fmt.Sprintf("parseProtoAddr(%q) accepted scheme %q", in, proto), "parse:scheme"
		}
		if addr == "" {
			return fmt.Sprintf("parseProtoAddr(%q) returned an empty endpoint without error", in), "parse:emptyendpoint"
		}
		if proto != "unix" && !strings.Contains(in, addr) {
			return fmt.Sprintf("parseProtoAddr(%q) = %q, %q: the endpoint does not occur in the input", in, proto, addr), "parse:endpoint"
		}
		if proto == "unix" && prefix == "unix://" && (onlyChars(body, "tcpudnix46./a1") || (strings.HasPrefix(body, "/") && onlyChars(body, "tcpudnix46./a1%"))) {
			if want := path.Clean(body); addr != want {
				return fmt.Sprintf("parseProtoAddr(%q) = unix, %q; want the cleaned path %q", in, addr, want), "parse:unixpath"
			}
		}
		if (prefix == "tcp://" || prefix == "udp6://") && onlyChars(body, "tcpudnix46.a1") && addr != body {
			return fmt.Sprintf("parseProtoAddr(%q) = %q, %q; want the host as written", in, proto, addr), "parse:host"
		}
		if prefix == "zz://" {
			return fmt.Sprintf("parseProtoAddr(%q) accepted an unknown scheme", in), "parse:unknownscheme"
		}
		return "", ""
	}
	// failures that are pinned down by the statement
	if body == "" && prefix != "" && prefix != "zz://" && !errors.Is(err, errorx.ErrInvalidNetworkAddress) {
		return fmt.Sprintf("parseProtoAddr(%q) = %v; want the invalid-network-address error for an empty endpoint", in, err), "parse:emptyerr"
	}
	if prefix == "" && body != "" && onlyChars(body, "tcpudnix46a1") && !errors.Is(err, errorx.ErrInvalidNetworkAddress) {
		return fmt.Sprintf("parseProtoAddr(%q) = %v; want the invalid-network-address error for a missing scheme", in, err), "parse:noschemeerr"
	}
	if prefix == "zz://" && body != "" && onlyChars(body, "tcpudnix46.a1") && !errors.Is(err, errorx.ErrUnsupportedProtocol) {
		return fmt.Sprintf("parseProtoAddr(%q) = %v; want the unsupported-protocol error", in, err), "parse:unknownerr"
	}
	// the opaque spelling "scheme:rest": an unknown scheme in front of a non-empty endpoint is the
	// unsupported-protocol case whichever way the endpoint is written
	if i := strings.IndexByte(body, ':'); prefix == "" && i > 0 && i < len(body)-1 {
		sch, rest := body[:i], body[i+1:]
		if sch[0] >= 'a' && sch[0] <= 'z' && onlyChars(sch, "tcpudnix46a1") && !c16Schemes[sch] && onlyChars(rest, "tcpudnix46.a1") && !errors.Is(err, errorx.ErrUnsupportedProtocol) {
			return fmt.Sprintf("parseProtoAddr(%q) = %v; want the unsupported-protocol error (unknown scheme %q, endpoint %q)", in, err, sch, rest), "parse:unknownerr-opaque"
		}
	}
	if (prefix == "tcp://" || prefix == "udp6://" || prefix == "unix://") && body != "" && onlyChars(body, "tcpudnixa") {
		return fmt.Sprintf("parseProtoAddr(%q) failed: %v", in, err), "parse:rejectedvalid"
	}
	if prefix == "unix://" && strings.HasPrefix(body, "/") && len(body) > 1 && onlyChars(body, "tcpudnix46./a1%") {
		return fmt.Sprintf("parseProtoAddr(%q) failed: %v; an absolute unix path may contain any number of '%%' characters", in, err), "parse:rejectedvalid"
	}
	return "", ""
}

const c16Alphabet = "tcpudnix46:/[]%.a1@?"

var c16Prefixes = []string{"", "tcp://", "udp6://", "unix://", "zz://"}

type c16Grammar struct {
	in, scheme, endpoint string
}

func c16GrammarCases() []c16Grammar {
	var out []c16Grammar
	schemes := []string{"tcp", "tcp4", "tcp6", "udp", "udp4", "udp6"}
	spell := func(s string) []string { return []string{s, strings.ToUpper(s), strings.ToUpper(s[:1]) + s[1:]} }
	hosts := []string{"localhost", "a.b-c.example", "x", "127.0.0.1", "0.0.0.0", "255.255.255.255"}
	v6 := []string{"::", "::1", "fe80::1", "2001:db8::ff00:42:8329", "::ffff:1.2.3.4", "ff02::3"}
	zones := []string{"", "eth0", "1", "lo0", "a%b", "%25x"}
	ports := []string{":0", ":1", ":80", ":65535", ":65536", ":", ""}
	for _, sc := range schemes {
		for _, sp := range spell(sc) {
			for _, p := range ports {
				for _, h := range hosts {
					ep := h + p
					out = append(out, c16Grammar{sp + "://" + ep, sc, ep})
				}
				for _, a := range v6 {
					for _, z := range zones {
						h := "[" + a
						if z != "" {
							h += "%" + z
						}
						h += "]"
						ep := h + p
						out = append(out, c16Grammar{sp + "://" + ep, sc, ep})
					}
				}
			}
		}
	}
	paths := []string{"/tmp/gnet.sock", "gnet.sock", "./gnet.sock", "../x/y.sock", "/a//b", "/a/./b/../c", "/tmp/%41.sock", "/tmp/a b.sock", "/", "a/b/c/"}
	for _, sp := range spell("unix") {
		for _, p := range paths {
			out = append(out, c16Grammar{sp + "://" + p, "unix", path.Clean(p)})
		}
	}
	return out
}

func c16Options(report func(sig, msg string, v int)) (n int64) {
	var vals []int
	for v := -2; v <= 1<<17; v++ {
		vals = append(vals, v)
	}
	for k := 17; k <= 62; k++ {
		for d := -1; d <= 1; d++ {
			if v := 1<<uint(k) + d; v <= 1<<62 {
				vals = append(vals, v)
			}
		}
	}
	wantCap := func(v int) int {
		switch {
		case v <= 0:
			return 64 * 1024
		case v <= 1024:
			return 1024
		}
		p := 1
		for p < v {
			p <<= 1
		}
		return p
	}
	check := func(where string, o *Options, v int) {
		if o.ReadBufferCap != wantCap(v) {
			report("opt:readcap", fmt.Sprintf("%s: ReadBufferCap %d normalised to %d, want %d", where, v, o.ReadBufferCap, wantCap(v)), v)
		}
		if o.WriteBufferCap != wantCap(v) {
			report("opt:writecap", fmt.Sprintf("%s: WriteBufferCap %d normalised to %d, want %d", where, v, o.WriteBufferCap, wantCap(v)), v)
		}
		if v > 0 {
			p := 2
			for p < v {
				p <<= 1
			}
			if o.EdgeTriggeredIOChunk != p || !o.EdgeTriggeredIO {
				report("opt:chunk", fmt.Sprintf("%s: EdgeTriggeredIOChunk %d normalised to %d (ET=%v), want %d", where, v, o.EdgeTriggeredIOChunk, o.EdgeTriggeredIO, p), v)
			}
		}
	}
	eh := &BuiltinEventEngine{}
	checkOne := func(where string, o *Options, r, wr, ch int) {
		if o.ReadBufferCap != wantCap(r) {
			report("opt:readcap", fmt.Sprintf("%s: ReadBufferCap %d (with WriteBufferCap %d) normalised to %d, want %d", where, r, wr, o.ReadBufferCap, wantCap(r)), r)
		}
		if o.WriteBufferCap != wantCap(wr) {
			report("opt:writecap", fmt.Sprintf("%s: WriteBufferCap %d (with ReadBufferCap %d) normalised to %d, want %d", where, wr, r, o.WriteBufferCap, wantCap(wr)), wr)
		}
		if ch > 0 {
			p := 2
			for p < ch {
				p <<= 1
			}
			if o.EdgeTriggeredIOChunk != p || !o.EdgeTriggeredIO {
				report("opt:chunk", fmt.Sprintf("%s: EdgeTriggeredIOChunk %d normalised to %d (ET=%v), want %d", where, ch, o.EdgeTriggeredIOChunk, o.EdgeTriggeredIO, p), ch)
			}
		}
	}
	_ = check
	for i, v := range vals {
		// the three options are independent: pair every value with different values of the other two
		wr := vals[(i*7+3)%len(vals)]
		ch := vals[(i*13+5)%len(vals)]
		func() {
			defer func() {
				if r := recover(); r != nil {
					report("opt:panic", fmt.Sprintf("option normalisation panicked for read=%d write=%d chunk=%d: %v", v, wr, ch, r), v)
				}
			}()
			_, o, err := createListeners(nil, WithReadBufferCap(v), WithWriteBufferCap(wr), WithEdgeTriggeredIOChunk(ch))
			if err != nil {
				report("opt:err", fmt.Sprintf("createListeners with capacity %d failed: %v", v, err), v)
			} else {
				checkOne("createListeners", o, v, wr, ch)
			}
			cli, err := NewClient(eh, WithReadBufferCap(v), WithWriteBufferCap(wr), WithEdgeTriggeredIOChunk(ch))
			if err != nil {
				report("opt:err", fmt.Sprintf("NewClient with capacity %d failed: %v", v, err), v)
			} else {
				checkOne("NewClient", cli.opts, v, wr, ch)
			}
		}()
		n += 2
	}
	// loop count
	for _, mc := range []bool{false, true} {
		for nl := -1; nl <= 300; nl++ {
			o := &Options{Multicore: mc, NumEventLoop: nl}
			got := determineEventLoops(o)
			want := 1
			if mc {
				want = runtime.NumCPU()
			}
			if nl > 0 {
				want = nl
			}
			if want > 256 {
				want = 256
			}
			if got != want || got < 1 || got > 256 {
				report("opt:loops", fmt.Sprintf("determineEventLoops(Multicore=%v, NumEventLoop=%d) = %d, want %d", mc, nl, got, want), nl)
			}
			n++
		}
	}
	return
}

func TestMC_C16(t *testing.T) {
	thorough := seqmc.Tier() == "thorough"
	maxLen := 5
	if thorough {
		maxLen = 6
	}
	var mu sync.Mutex
	type vt struct {
		msg, in string
	}
	viol := map[string]vt{}
	report := func(sig, msg, in string) {
		mu.Lock()
		if old, ok := viol[sig]; !ok || len(in) < len(old.in) || (len(in) == len(old.in) && in < old.in) {
			viol[sig] = vt{msg, in}
		}
		mu.Unlock()
	}
	if rp := seqmc.ReplayFile(); rp != "" {
		v, err := seqmc.LoadViolation(rp)
		if err != nil {
			t.Fatal(err)
		}
		var msg string
		switch {
		case strings.HasPrefix(v.Sig, "opt:"):
			c16Options(func(sig, m string, _ int) {
				if sig == v.Sig && msg == "" {
					msg = m
				}
			})
		case strings.HasPrefix(v.Sig, "grammar:"):
			for _, g := range c16GrammarCases() {
				if m, s := c16CheckGrammar(g); s == v.Sig && msg == "" {
					msg = m
				}
			}
		default:
			pi, body := v.History[0].A[0], v.Scenario
			msg, _ = c16CheckArbitrary(c16Prefixes[pi], body)
		}
		if msg != "" {
			fmt.Printf("REPLAY-VIOLATION property=C16 sig=%s %s\n", v.Sig, msg)
			t.Fail()
			return
		}
		fmt.Println("REPLAY-OK property=C16")
		return
	}

	var total int64
	// (a) every string of length <= maxLen over the alphabet, behind every prefix
	na := len(c16Alphabet)
	count := 1
	var starts []int // enumerate by (length, index); shard by chunks
	_ = starts
	for l := 0; l <= maxLen; l++ {
		count = 1
		for i := 0; i < l; i++ {
			count *= na
		}
		l := l
		cnt := count
		var next int64
		var wg sync.WaitGroup
		for w := 0; w < runtime.GOMAXPROCS(0); w++ {
			wg.Add(1)
			go func() {
				defer wg.Done()
				buf := make([]byte, l)
				for {
					lo := int(atomic.AddInt64(&next, 4096)) - 4096
					if lo >= cnt {
						return
					}
					hi := lo + 4096
					if hi > cnt {
						hi = cnt
					}
					for idx := lo; idx < hi; idx++ {
						x := idx
						for i := l - 1; i >= 0; i-- {
							buf[i] = c16Alphabet[x%na]
							x /= na
						}
						body := string(buf)
						for pi, p := range c16Prefixes {
							if msg, sig := c16CheckArbitrary(p, body); msg != "" {
								report(sig, msg, fmt.Sprintf("%d|%s", pi, body))
							}
						}
					}
					atomic.AddInt64(&total, int64((hi-lo)*len(c16Prefixes)))
				}
			}()
		}
		wg.Wait()
	}
	arbitrary := total
	// (b) grammar derivations
	gcases := c16GrammarCases()
	for _, g := range gcases {
		if msg, sig := c16CheckGrammar(g); msg != "" {
			report(sig, msg, "g|"+g.in)
		}
		total++
	}
	// (c) integer options
	var optViol []seqmc.Violation
	nopt := c16Options(func(sig, msg string, v int) {
		for _, x := range optViol {
			if x.Sig == sig {
				return
			}
		}
		optViol = append(optViol, seqmc.Violation{Property: "C16", Scenario: "options", Sig: sig, Msg: msg, History: []seqmc.Op{{N: "v", A: []int{v}}}, Replays: 5})
	})
	total += nopt

	var res seqmc.Result
	res.Property = "C16"
	res.Evaluations = total
	res.Distinct = total
	res.Exhaustive = true
	res.Bounds = []string{fmt.Sprintf("every string of length <= %d over the %d-symbol alphabet %q, as-is and behind %v (%d parses)", maxLen, na, c16Alphabet, c16Prefixes[1:], arbitrary),
		fmt.Sprintf("%d grammar derivations (7 schemes x 3 spellings x hosts/IPv4/IPv6 with zones x ports; unix paths)", len(gcases)),
		fmt.Sprintf("%d option evaluations: every capacity/chunk in [-2, 2^17] and 2^k-1..2^k+1 up to 2^62 through createListeners and NewClient; every (Multicore, NumEventLoop in -1..300)", nopt)}
	res.Samples = []string{"tcp://[fe80::1%eth0]:80", "unix://a//b", "zz://x", "udp6://:", "WithReadBufferCap(1025) -> 2048"}
	for sig, v := range viol {
		pi := 0
		body := v.in
		if i := strings.IndexByte(v.in, '|'); i >= 0 {
			fmt.Sscanf(v.in[:i], "%d", &pi)
			body = v.in[i+1:]
		}
		res.Violations = append(res.Violations, seqmc.Violation{Property: "C16", Scenario: body, Sig: sig, Msg: v.msg, History: []seqmc.Op{{N: "prefix", A: []int{pi}}}, Replays: 5})
	}
	res.Violations = append(res.Violations, optViol...)
	if err := res.Write(); err != nil {
		t.Fatal(err)
	}
}

func c16CheckGrammar(g c16Grammar) (string, string) {
	proto, addr, err, pmsg := c16Parse(g.in)
	if pmsg != "" {
		return fmt.Sprintf("parseProtoAddr(%q) panicked: %s", g.in, pmsg), "grammar:panic"
	}
	if err != nil {
		return fmt.Sprintf("parseProtoAddr(%q) failed: %v; want %q, %q", g.in, err, g.scheme, g.endpoint), "grammar:rejected"
	}
	if proto != g.scheme {
		return fmt.Sprintf("parseProtoAddr(%q) scheme %q, want %q", g.in, proto, g.scheme), "grammar:scheme"
	}
	if addr != g.endpoint {
		return fmt.Sprintf("parseProtoAddr(%q) endpoint %q, want %q exactly as written", g.in, addr, g.endpoint), "grammar:endpoint"
	}
	return "", ""
}
