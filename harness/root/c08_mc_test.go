//go:build verifmc

package gnet

// C08 — UDP datagram fidelity: one datagram, one event, right peer, intact boundaries.

import (
	"bytes"
	"fmt"
	"net"
	"os"
	"testing"
	"time"

	"golang.org/x/sys/unix"

	"github.com/panjf2000/gnet/v2/internal/verifmc/mcsys"
	"github.com/panjf2000/gnet/v2/internal/verifmc/sched"
	"github.com/panjf2000/gnet/v2/internal/verifmc/seqmc"
)

type udpCfg struct {
	rbuf    int // ReadBufferCap (0 = default 64 KiB)
	name    string
	v6      bool
	loops   int
	senders [][]int // per sender: payload sizes
	single  int     // >= 0: one datagram of exactly this size, default handling (size sweep)
}

type udpPeer struct {
	fd   int
	addr unix.Sockaddr
	str  string
	got  [][]byte
	from []string
	want int
	sent [][]byte
}

func dgram(sender, seq, n int) []byte {
	b := make([]byte, n)
	for i := range b {
		b[i] = byte((sender*97 + seq*31 + i*5 + 11) % 251)
	}
	return b
}

func saString(sa unix.Sockaddr) string {
	switch a := sa.(type) {
	case *unix.SockaddrInet4:
		return (&net.UDPAddr{IP: a.Addr[:], Port: a.Port}).String()
	case *unix.SockaddrInet6:
		return (&net.UDPAddr{IP: a.Addr[:], Port: a.Port}).String()
	}
	return "?"
}

// settle waits (real time, bounded) until the datagram just sent is visible on some socket of
// the framework: loopback delivery is normally synchronous with sendto, this only guards the
// rare deferral to a softirq thread, so that enabledness is decided on a settled kernel state.
func settle(fds []int) {
	if fds == nil {
		fds = mcsys.FrameworkFds("dup")
	}
	deadline := time.Now().Add(200 * time.Millisecond)
	for time.Now().Before(deadline) {
		for _, fd := range fds {
			if mcsys.FdReadable(fd) {
				return
			}
		}
	}
}

var udpHandle = []string{"read-all+write", "nothing+write", "next1+write", "peek1+write", "discard1+write", "read-all+sendto-other", "read-all+asyncwrite", "read-all+none", "read-all+sendto-other-then-write", "read-all+sendto-each-reused-addr"}

func udpPort() int { return 20000 + (os.Getpid()%5000)*4 }

func udpWorld(c udpCfg) *world {
	w := newWorld(c.name)
	host := "127.0.0.1"
	if c.v6 {
		host = "[::1]"
	}
	w.addr = fmt.Sprintf("udp://%s:%d", host, udpPort())
	w.opts = []Option{WithNumEventLoop(c.loops)}
	if c.rbuf > 0 {
		w.opts = append(w.opts, WithReadBufferCap(c.rbuf))
	}
	peers := make([]*udpPeer, len(c.senders))
	type seen struct {
		sender, seq int
	}
	events := map[seen]int{}
	expectNone := map[int]bool{}
	w.onTraffic = func(w *world, ci *connInfo) Action {
		cn := ci.c
		n := cn.InboundBuffered()
		all, _ := cn.Peek(-1)
		all = append([]byte{}, all...)
		ra := ""
		if cn.RemoteAddr() != nil {
			ra = cn.RemoteAddr().String()
		}
		// identify the datagram
		var hit *seen
		for si, p := range peers {
			if p == nil {
				continue
			}
			for q, d := range p.sent {
				if len(d) == len(all) && bytes.Equal(d, all) && (len(d) > 0 || p.str == ra) {
					hit = &seen{si, q}
				}
			}
		}
		if hit == nil {
			w.violate("udp:payload", "OnTraffic saw %d readable bytes (InboundBuffered %d) that are no datagram any sender sent (merged, split, carried over or corrupted)", len(all), n)
			return None
		}
		if n != len(all) {
			w.violate("udp:buffered", "InboundBuffered()=%d but Peek(-1) shows %d bytes", n, len(all))
		}
		events[*hit]++
		sp := peers[hit.sender]
		if ra != sp.str {
			w.violate("udp:remoteaddr", "datagram %d of sender %d (%s): RemoteAddr() = %s", hit.seq, hit.sender, sp.str, ra)
		}
		mode := udpHandle[0]
		if c.single < 0 {
			mode = udpHandle[sched.Choose(len(udpHandle), "udp-handle")]
		}
		switch mode[:len(mode)-len(mode[indexByte(mode, '+'):])] {
		case "read-all":
			p := make([]byte, n+4)
			m, _ := cn.Read(p)
			if m != n || !bytes.Equal(p[:m], all) {
				w.violate("udp:read", "Read returned %d bytes, datagram has %d", m, n)
			}
		case "next1":
			if n > 0 {
				b, _ := cn.Next(1)
				if len(b) != 1 || b[0] != all[0] {
					w.violate("udp:read", "Next(1) returned %v", b)
				}
			}
		case "peek1":
			if n > 0 {
				b, _ := cn.Peek(1)
				if len(b) != 1 || b[0] != all[0] {
					w.violate("udp:read", "Peek(1) returned %v", b)
				}
			}
		case "discard1":
			if n > 0 {
				_, _ = cn.Discard(1)
			}
		}
		reply := append([]byte("R"), all...)
		if len(reply) > 65507 {
			reply = reply[:65507]
		}
		if len(all) == 0 {
			// the answer to an empty datagram is an empty datagram: a Write/SendTo of zero bytes still
			// sends exactly one datagram
			reply = []byte{}
		}
		switch mode[indexByte(mode, '+')+1:] {
		case "write":
			if m, err := cn.Write(reply); err != nil || m != len(reply) {
				w.violate("udp:write", "Write(%d bytes) = %d, %v", len(reply), m, err)
			}
			sp.want++
		case "sendto-other", "sendto-other-then-write":
			o := peers[(hit.sender+1)%len(peers)]
			ua := &net.UDPAddr{}
			switch a := o.addr.(type) {
			case *unix.SockaddrInet4:
				ua.IP, ua.Port = a.Addr[:], a.Port
			case *unix.SockaddrInet6:
				ua.IP, ua.Port = a.Addr[:], a.Port
			}
			if m, err := cn.SendTo(reply, ua); err != nil || m != len(reply) {
				w.violate("udp:sendto", "SendTo(%d bytes) = %d, %v", len(reply), m, err)
			}
			o.want++
			if mode[indexByte(mode, '+')+1:] == "sendto-other-then-write" {
				// a Write after a SendTo still answers the sender of the datagram
				if m, err := cn.Write(reply); err != nil || m != len(reply) {
					w.violate("udp:write", "Write(%d bytes) after SendTo = %d, %v", len(reply), m, err)
				}
				sp.want++
			}
		case "sendto-each-reused-addr":
			// one reply to every known peer through ONE address variable changed in place between the
			// calls (what a handler looping over its peers does): each SendTo goes to the address its
			// argument holds at the time of the call
			ua := &net.UDPAddr{}
			for _, o := range peers {
				if o == nil || o.addr == nil {
					continue
				}
				switch a := o.addr.(type) {
				case *unix.SockaddrInet4:
					ua.IP, ua.Port = append(ua.IP[:0], a.Addr[:]...), a.Port
				case *unix.SockaddrInet6:
					ua.IP, ua.Port = append(ua.IP[:0], a.Addr[:]...), a.Port
				}
				if m, err := cn.SendTo(reply, ua); err != nil || m != len(reply) {
					w.violate("udp:sendto", "SendTo(%d bytes) = %d, %v", len(reply), m, err)
				}
				o.want++
			}
		case "asyncwrite":
			_ = cn.AsyncWrite(reply, nil)
			sp.want++
		case "none":
			expectNone[hit.sender] = true
		}
		return None
	}
	w.script = func(w *world) {
		done := 0
		for si, sizes := range c.senders {
			si, sizes := si, sizes
			p := &udpPeer{}
			peers[si] = p
			sched.Go(fmt.Sprintf("sender%d", si), func() {
				defer func() { done++ }()
				w.waitBoot()
				fd, sa, err := mcsys.PUDPSocket(c.v6, udpPort()+1+si)
				if err != nil {
					w.violate("udp:harness", "socket: %v", err)
					return
				}
				p.fd, p.addr, p.str = fd, sa, saString(sa)
				var dst unix.Sockaddr
				if c.v6 {
					a := &unix.SockaddrInet6{Port: udpPort()}
					a.Addr[15] = 1
					dst = a
				} else {
					dst = &unix.SockaddrInet4{Port: udpPort(), Addr: [4]byte{127, 0, 0, 1}}
				}
				// all senders have their sockets before anyone sends (SendTo(other) needs the address)
				sched.BlockUntil(func() bool {
					for _, q := range peers {
						if q == nil || q.str == "" {
							return false
						}
					}
					return true
				})
				for q, n := range sizes {
					d := dgram(si, q, n)
					p.sent = append(p.sent, d)
					if err := mcsys.PSendto(fd, d, dst); err != nil {
						w.violate("udp:harness", "sendto: %v", err)
					}
					settle(mcsys.FrameworkSockets())
				}
			})
		}
		sched.Go("ctl", func() {
			w.waitBoot()
			sched.BlockUntil(func() bool { return done >= len(c.senders) })
			sched.WaitIdle()
			// collect the replies: everything that has arrived at each sender's socket
			buf := make([]byte, 70000)
			for _, p := range peers {
				// replies are normally there already (loopback delivery is synchronous with sendto); the
				// bounded real-time wait only guards against deferral to a softirq thread
				deadline := time.Now().Add(300 * time.Millisecond)
				for {
					if mcsys.FdReadable(p.fd) {
						n, from, err := mcsys.PRecvfrom(p.fd, buf)
						if err != nil {
							break
						}
						p.got = append(p.got, append([]byte{}, buf[:n]...))
						p.from = append(p.from, saString(from))
						continue
					}
					if len(p.got) >= p.want || !time.Now().Before(deadline) {
						break
					}
				}
			}
			_ = w.stopEngine()
			for _, p := range peers {
				_ = mcsys.PClose(p.fd)
			}
		})
	}
	w.checks = append(w.checks, checkEnd, func(w *world, out *sched.Outcome) (string, string) {
		for si, sizes := range c.senders {
			for q := range sizes {
				if n := events[seen{si, q}]; n != 1 {
					return fmt.Sprintf("datagram %d of sender %d (%d bytes) produced %d OnTraffic events", q, si, sizes[q], n), "udp:eventcount"
				}
			}
		}
		for si, p := range peers {
			if len(p.got) != p.want {
				return fmt.Sprintf("sender %d expected %d reply datagram(s) and received %d", si, p.want, len(p.got)), "udp:replycount"
			}
			for _, g := range p.got {
				if len(g) > 0 && g[0] != 'R' {
					return fmt.Sprintf("sender %d received a datagram that is no reply", si), "udp:replycontent"
				}
				ok := false
				for _, q := range peers {
					for _, d := range q.sent {
						w := append([]byte("R"), d...)
						if len(w) > 65507 {
							w = w[:65507]
						}
						if len(d) == 0 {
							w = []byte{}
						}
						if bytes.Equal(w, g) {
							ok = true
						}
					}
				}
				if !ok {
					return fmt.Sprintf("sender %d received a reply of %d bytes that matches no datagram (boundaries not preserved)", si, len(g)), "udp:replycontent"
				}
			}
		}
		return "", ""
	})
	return w
}

func indexByte(s string, c byte) int {
	for i := 0; i < len(s); i++ {
		if s[i] == c {
			return i
		}
	}
	return len(s)
}

func udpSchedConfigs() ([]sched.Config, func(string) *sched.Config) {
	thorough := seqmc.Tier() == "thorough"
	var cfgs []udpCfg
	for _, v6 := range []bool{false, true} {
		fam := map[bool]string{false: "v4", true: "v6"}[v6]
		cfgs = append(cfgs,
			udpCfg{name: "udp/" + fam + "/1x[0,1,1024]", v6: v6, loops: 1, senders: [][]int{{0, 1, 1024}}, single: -1},
			udpCfg{name: "udp/" + fam + "/2x[2|1023]", v6: v6, loops: 1, senders: [][]int{{2, 5}, {1023}}, single: -1},
			udpCfg{name: "udp/" + fam + "/2loops", v6: v6, loops: 2, senders: [][]int{{3}, {4}}, single: -1},
			udpCfg{name: "udp/" + fam + "/65507", v6: v6, loops: 1, senders: [][]int{{65507, 1}}, single: -1},
			udpCfg{name: "udp/" + fam + "/readbuf2048", v6: v6, loops: 1, rbuf: 2048, senders: [][]int{{2047, 2048}, {1}}, single: -1},
		)
	}
	var out []sched.Config
	bounds := []sched.Bound{{PB: 0, DB: 0}, {PB: 0, DB: 1}, {PB: 1, DB: 0}, {PB: 1, DB: 1}, {PB: 0, DB: 2}}
	if thorough {
		bounds = append(bounds, sched.Bound{PB: 2, DB: 1}, sched.Bound{PB: 1, DB: 2})
	}
	for _, c := range cfgs {
		c := c
		out = append(out, sched.Config{Property: "C08", Name: c.name, Bounds: bounds, Horizon: 40000, Deadline: seqmc.Deadline(), DelayBounded: true, New: func() sched.Scenario { return udpWorld(c) }})
	}
	return out, func(name string) *sched.Config {
		for i := range out {
			if out[i].Name == name {
				return &out[i]
			}
		}
		return nil
	}
}

// sizeSweep sends one datagram of every size in the shard's share of 0..65507 (default schedule).
func sizeSweep(res *seqmc.Result, step int) {
	si, sn := seqmc.Shard()
	n := 0
	for size := si * step; size <= 65507; size += sn * step {
		c := udpCfg{name: fmt.Sprintf("udp/sweep/%d", size), loops: 1, senders: [][]int{{size}}, single: size}
		w := udpWorld(c)
		out := sched.RunOnce(nil, 40000, false, w.Body)
		n++
		if msg, sig := w.Check(out); msg != "" {
			res.Violations = append(res.Violations, seqmc.Violation{Property: "C08", Scenario: c.name, Sig: sig, Msg: msg, Replays: 5, Schedule: []sched.PrefixItem{}})
			break
		}
	}
	res.Evaluations += int64(n)
	res.States += int64(n)
	res.Transitions += int64(n)
	res.Distinct += int64(n)
}

func TestMC_C08(t *testing.T) {
	cfgs, byName := udpSchedConfigs()
	if rp := seqmc.ReplayFile(); rp != "" {
		v, _ := sched.LoadViolation(rp)
		if len(v.Scenario) > 10 && v.Scenario[:10] == "udp/sweep/" {
			var size int
			fmt.Sscanf(v.Scenario, "udp/sweep/%d", &size)
			w := udpWorld(udpCfg{name: v.Scenario, loops: 1, senders: [][]int{{size}}, single: size})
			out := sched.RunOnce(nil, 40000, false, w.Body)
			if msg, sig := w.Check(out); msg != "" {
				fmt.Printf("REPLAY-VIOLATION property=C08 sig=%s %s\n", sig, msg)
				t.Fail()
				return
			}
			fmt.Println("REPLAY-OK property=C08")
			return
		}
	}
	step := 97
	if seqmc.Tier() == "thorough" {
		step = 1
	}
	runEngineCheckExtra(t, "C08", cfgs, byName, fmt.Sprintf("UDP on loopback (IPv4 and ::1), 1-2 loops, 1-2 senders x 1-3 datagrams with sizes {0,1,2,5,1023,1024,65507}: every handler choice (%d consumption/reply modes) within the deviation bound and every schedule within the delay bound; plus one datagram of every size 0,%d,..65507 on the default schedule", len(udpHandle), step),
		func(res *seqmc.Result) { sizeSweep(res, step) })
}
