//go:build gc_opt

package gnet

import (
	"fmt"
	"strings"

	"github.com/panjf2000/gnet/v2/internal/gfd"
)

const c14Variant = "matrix"

func c14Key(cm *connMatrix) string {
	var sb strings.Builder
	// every field that decides the future of the registry is part of the state: the cursor, the
	// compaction switch (a stale one changes what the next removal does) and the per-row counts
	fmt.Fprintf(&sb, "%d/%d/%v:", cm.row, cm.column, cm.disableCompact)
	for r, n := range cm.connCounts {
		if n != 0 {
			fmt.Fprintf(&sb, "n%d=%d,", r, n)
		}
	}
	for r, row := range cm.table {
		if row == nil {
			continue
		}
		for c, p := range row {
			if p != nil {
				fmt.Fprintf(&sb, "%d.%d=%d,", r, c, p.fd)
			}
		}
	}
	return sb.String() + c14Scalars(cm)
}

// c14Extra: every live connection's identifier points at its own slot and the lookup index agrees.
func c14Extra(cm *connMatrix, live map[int]*conn) string {
	for fd, c := range live {
		r, col := c.gfd.ConnMatrixRow(), c.gfd.ConnMatrixColumn()
		if cm.table[r] == nil || cm.table[r][col] != c {
			return fmt.Sprintf("connection fd=%d carries indexes (%d,%d) but that slot does not hold it", fd, r, col)
		}
		if g, ok := cm.fd2gfd[fd]; !ok || g != c.gfd {
			return fmt.Sprintf("fd2gfd[%d] disagrees with the connection's identifier", fd)
		}
		if c.gfd.Fd() != fd {
			return fmt.Sprintf("identifier of fd=%d unpacks to fd=%d", fd, c.gfd.Fd())
		}
	}
	if len(cm.fd2gfd) != len(live) {
		return fmt.Sprintf("fd2gfd holds %d entries for %d live connections", len(cm.fd2gfd), len(live))
	}
	return ""
}

func c14Capacity() int { return gfd.ConnMatrixRowMax * gfd.ConnMatrixColumnMax }
