//go:build verifmc

package gnet

// C05 — event-loop confinement and freedom from data races.
// The instrumented engine is built with -race and the scheduler hands the token over with raw
// futex operations inside //go:norace functions (tag mcfutex): the hand-offs are invisible to the
// race detector, so the detector judges every explored schedule by gnet's OWN happens-before
// relation. The detector is thus a per-schedule oracle inside an exhaustive schedule enumeration.
// Everything in this file is //go:norace and free of Go synchronisation (it must neither hide
// nor fabricate happens-before edges); connections travel from callbacks to user threads through
// a real atomic.Value, exactly as a correct application would publish them.

import (
	"context"
	"fmt"
	"os"
	"path/filepath"
	"strings"
	"sync/atomic"
	"testing"
	"time"

	"golang.org/x/sys/unix"

	"github.com/panjf2000/gnet/v2/internal/verifmc/mcsys"
	"github.com/panjf2000/gnet/v2/internal/verifmc/mctime"
	"github.com/panjf2000/gnet/v2/internal/verifmc/sched"
	"github.com/panjf2000/gnet/v2/internal/verifmc/seqmc"
)

type raceCfg struct {
	name  string
	et    bool
	loops int
	kind  string
}

type raceW struct {
	cfg       raceCfg
	addr      string
	path      string
	eng       atomic.Value // Engine, published by OnBoot
	conn      atomic.Value // Conn of the first connection, published by OnOpen
	booted    uint32       // plain words, only touched from norace code
	opened    int
	closed    int
	traffics  int
	cbs       int
	execs     int
	runDone   bool
	runErr    error
	usersDone int
	nusers    int
	peerDone  bool
	peerFd    int
	peer2Done bool
	peer2Fd   int
	loops     []EventLoop // confinement: per loop, nesting of callbacks and the thread they run on
	inCb      []int
	loopThr   []int
	confine   string
	control   bool
	dupFds    []int
}

// ---- handler (methods, no closures) -----------------------------------------------------------

//go:norace
func (r *raceW) loopIdx(el EventLoop) int {
	for i, l := range r.loops {
		if l == el {
			return i
		}
	}
	r.loops = append(r.loops, el)
	r.inCb = append(r.inCb, 0)
	r.loopThr = append(r.loopThr, -1)
	return len(r.loops) - 1
}

//go:norace
func (r *raceW) enter(c Conn) {
	if c == nil {
		return
	}
	i := r.loopIdx(c.EventLoop())
	t := sched.CurrentThread()
	if prev := r.loopThr[i]; prev >= 0 && prev != t && r.confine == "" {
		r.confine = fmt.Sprintf("callbacks of one event loop ran on threads %d and %d", prev, t)
	}
	nested := r.inCb[i] > 0 && r.loopThr[i] == t
	r.loopThr[i] = t
	r.inCb[i]++
	// a callback entered while another one of the same loop is in progress on ANOTHER thread is an
	// overlap; on the same thread it is the engine's synchronous re-entrancy (a Write failing inside
	// OnTraffic closes the connection and calls OnClose before it returns), which is one goroutine
	// doing one thing at a time
	if r.inCb[i] > 1 && !nested && r.confine == "" {
		r.confine = "two callbacks of one event loop overlapped"
	}
}

//go:norace
func (r *raceW) leave(c Conn) {
	if c != nil {
		r.inCb[r.loopIdx(c.EventLoop())]--
	}
}

//go:norace
func (r *raceW) OnBoot(eng Engine) Action {
	r.eng.Store(eng)
	r.booted = 1
	if r.cfg.kind == "count-during-start" {
		sched.Go("user", r.userCountEarly)
	}
	return None
}

//go:norace
func (r *raceW) OnShutdown(Engine) {}

//go:norace
func (r *raceW) OnOpen(c Conn) ([]byte, Action) {
	r.enter(c)
	defer r.leave(c)
	r.opened++
	c.SetContext("ctx")
	if r.opened == 1 {
		r.conn.Store(c)
	}
	return nil, None
}

//go:norace
func (r *raceW) OnClose(c Conn, err error) Action {
	r.enter(c)
	defer r.leave(c)
	r.closed++
	return None
}

//go:norace
func (r *raceW) OnTraffic(c Conn) Action {
	r.enter(c)
	defer r.leave(c)
	r.traffics++
	_ = c.Context()
	_ = c.SafeContext()
	b, _ := c.Next(-1)
	if len(b) > 0 {
		_, _ = c.Write(b)
	}
	return None
}

//go:norace
func (r *raceW) OnTick() (time.Duration, Action) { return time.Second, None }

// ---- predicates and callbacks as methods --------------------------------------------------------

//go:norace
func (r *raceW) isBooted() bool { return r.booted == 1 }

//go:norace
func (r *raceW) hasConn() bool { return r.conn.Load() != nil }

//go:norace
func (r *raceW) allDone() bool {
	return r.usersDone >= r.nusers && r.peerDone && (r.cfg.kind != "count-close" || r.peer2Done)
}

//go:norace
func (r *raceW) isRunDone() bool { return r.runDone }

// asyncCb is the callback of every asynchronous request: it must run on an event-loop thread.
//
//go:norace
func (r *raceW) asyncCb(Conn, error) error {
	r.cbs++
	t := sched.CurrentThread()
	onLoop := false
	for _, lt := range r.loopThr {
		if lt == t {
			onLoop = true
		}
	}
	if !onLoop && r.confine == "" && len(r.loopThr) > 0 {
		r.confine = fmt.Sprintf("the callback of an asynchronous request ran on thread %d (%s), which is not an event-loop thread", t, sched.CurrentName())
	}
	return nil
}

type raceRunnable struct{ r *raceW }

//go:norace
func (x raceRunnable) Run(context.Context) error { x.r.execs++; return nil }

// ---- threads ---------------------------------------------------------------------------------------

//go:norace
func (r *raceW) peerThread() {
	sched.BlockUntil(r.isBooted)
	fd, err := mcsys.PConnectUnix(r.path)
	if err != nil {
		r.peerDone = true
		return
	}
	r.peerFd = fd
	_, _ = mcsys.PWrite(fd, []byte("ping"))
	buf := make([]byte, 64)
	sched.BlockUntil(r.peerReadable)
	_, _ = mcsys.PRead(fd, buf)
	if r.cfg.kind == "stop" || r.cfg.kind == "close" {
		// keep the connection open: it is closed by the user thread / the shutdown
		sched.BlockUntil(r.usersFinished)
	}
	if r.cfg.kind == "count-close" {
		// the OLDER of two connections goes first (the compacting registry of the gc_opt build then
		// relocates the newer one) while the user threads are reading the connection count
		sched.BlockUntil(r.twoOpened)
	}
	_ = mcsys.PClose(fd)
	r.peerDone = true
}

//go:norace
func (r *raceW) twoOpened() bool { return r.opened >= 2 }

//go:norace
func (r *raceW) peer2Readable() bool { return mcsys.FdReadable(r.peer2Fd) }

//go:norace
func (r *raceW) peer2Thread() {
	sched.BlockUntil(r.hasConn) // after the first connection
	fd, err := mcsys.PConnectUnix(r.path)
	if err != nil {
		r.peer2Done = true
		return
	}
	r.peer2Fd = fd
	_, _ = mcsys.PWrite(fd, []byte("pong"))
	buf := make([]byte, 64)
	sched.BlockUntil(r.peer2Readable)
	_, _ = mcsys.PRead(fd, buf)
	sched.BlockUntil(r.usersFinished)
	_ = mcsys.PClose(fd)
	r.peer2Done = true
}

//go:norace
func (r *raceW) peerReadable() bool { return mcsys.FdReadable(r.peerFd) }

//go:norace
func (r *raceW) usersFinished() bool { return r.usersDone >= r.nusers }

//go:norace
func (r *raceW) userA() {
	sched.BlockUntil(r.hasConn)
	c := r.conn.Load().(Conn)
	eng := r.eng.Load().(Engine)
	switch r.cfg.kind {
	case "async":
		_ = c.AsyncWrite([]byte("aw"), r.asyncCb)
		_ = c.Wake(r.asyncCb)
		c.SetSafeContext("safe")
		_ = c.SafeContext()
		_ = c.Fd()
		_ = eng.CountConnections()
	case "close":
		_ = c.AsyncWritev([][]byte{[]byte("a"), []byte("b")}, r.asyncCb)
		_ = c.CloseWithCallback(r.asyncCb)
		_ = c.Close()
	case "sockopts":
		if fd, err := c.Dup(); err == nil {
			mcsys.Transfer(fd, "dup-for-user")
			r.dupFds = append(r.dupFds, fd)
		}
		_ = c.SetReadBuffer(4096)
		_ = c.SetWriteBuffer(4096)
		_ = c.SetLinger(1)
		_ = c.SetNoDelay(true)
		_ = c.SetKeepAlivePeriod(time.Second)
	case "stop":
		_ = eng.CountConnections()
		_ = eng.Stop(context.Background())
	case "count-close":
		sched.BlockUntil(r.twoOpened)
		_ = eng.CountConnections()
		_ = eng.CountConnections()
	case "execute-register":
		_ = c.EventLoop().Execute(context.Background(), raceRunnable{r})
		if nc, pfd, err := socketpairConn(); err == nil {
			r.dupFds = append(r.dupFds, pfd)
			if ch, err := eng.Register(NewNetConnContext(context.Background(), nc)); err == nil {
				waitRegistered(ch)
			}
		}
	case "register-fault":
		// Register while the poller refuses the registration (epoll_ctl ADD fails, injected as an
		// environment deviation): the error travels from the loop to this goroutine
		if nc, pfd, err := socketpairConn(); err == nil {
			r.dupFds = append(r.dupFds, pfd)
			if ch, err := eng.Register(NewNetConnContext(context.Background(), nc)); err == nil {
				waitRegistered(ch)
			}
		}
	case "control-setcontext":
		// NOT concurrency-safe by documentation: the positive control of the self-test
		c.SetContext("from another goroutine")
	}
	r.usersDone++
}

//go:norace
func raceRegisterFault(site string, fd int, n int) []string {
	if site == "epoll_ctl_add" && mcsys.KindOf(fd) == "dup" {
		return []string{"ENOMEM"}
	}
	return nil
}

//go:norace
func waitRegistered(ch <-chan RegisteredResult) {
	for {
		select {
		case <-ch:
			return
		default:
		}
		sched.Block()
	}
}

//go:norace
func (r *raceW) userB() {
	sched.BlockUntil(r.hasConn)
	c := r.conn.Load().(Conn)
	eng := r.eng.Load().(Engine)
	switch r.cfg.kind {
	case "async":
		_ = c.AsyncWritev([][]byte{[]byte("x")}, r.asyncCb)
		c.SetSafeContext(42) // a second publication, of another dynamic type
		_ = c.SafeContext()
		_ = eng.CountConnections()
	case "close":
		_ = c.Wake(r.asyncCb)
		_ = c.AsyncWrite([]byte("late"), r.asyncCb)
		_ = c.AsyncWritev([][]byte{[]byte("later")}, r.asyncCb)
	case "count-close":
		sched.BlockUntil(r.twoOpened)
		_ = eng.CountConnections()
		_ = c.Fd()
		_ = eng.CountConnections()
	case "stop":
		_ = c.AsyncWrite([]byte("x"), r.asyncCb)
		_ = eng.CountConnections()
		// requests that overlap the tail of the shutdown
		_ = c.Wake(r.asyncCb)
		_ = c.EventLoop().Execute(context.Background(), raceRunnable{r})
		_ = c.AsyncWrite([]byte("y"), r.asyncCb)
	default:
		_ = c.Fd()
		_ = c.SafeContext()
	}
	r.usersDone++
}

//go:norace
func (r *raceW) userCountEarly() {
	eng := r.eng.Load().(Engine)
	_ = eng.CountConnections()
	_ = eng.Validate()
	r.usersDone++
}

//go:norace
func (r *raceW) ctl() {
	sched.BlockUntil(r.isBooted)
	sched.BlockUntil(r.allDone)
	sched.WaitIdle()
	eng := r.eng.Load().(Engine)
	_ = eng.Stop(context.Background())
}

//go:norace
func (r *raceW) Body() {
	mcsys.Reset()
	mctime.Reset()
	r.nusers = 2
	switch r.cfg.kind {
	case "count-during-start":
		r.nusers = 1
	case "control-setcontext":
		r.nusers = 1
	}
	if r.cfg.kind == "register-fault" {
		mcsys.Deviate = raceRegisterFault
	}
	sched.Go("peer", r.peerThread)
	if r.cfg.kind == "count-close" {
		sched.Go("peer2", r.peer2Thread)
	}
	if r.cfg.kind != "count-during-start" {
		sched.Go("userA", r.userA)
		if r.nusers > 1 {
			sched.Go("userB", r.userB)
		}
	}
	sched.Go("ctl", r.ctl)
	// Engine.Register picks the loop on the caller's goroutine while the acceptor picks loops on its
	// own: the Register scenario runs the source-address-hash policy (documented as safe for that),
	// all others least-connections (round-robin is documented as not safe for concurrent Register)
	lb := LeastConnections
	if r.cfg.kind == "execute-register" {
		lb = SourceAddrHash
	}
	opts := []Option{WithLogger(nopLogger{}), WithNumEventLoop(r.cfg.loops), WithLoadBalancing(lb), WithTicker(r.cfg.kind == "async")}
	if r.cfg.et {
		opts = append(opts, WithEdgeTriggeredIO(true))
	}
	r.runErr = Run(r, r.addr, opts...)
	r.runDone = true
	sched.WaitIdle()
	for _, fd := range r.dupFds {
		_ = unix.Close(fd)
		mcsys.Forget(fd)
	}
}

//go:norace
func (r *raceW) Observe() string {
	return fmt.Sprintf("o%d c%d t%d cb%d", r.opened, r.closed, r.traffics, r.cbs)
}

var raceLogSeen = map[string]int64{}

// newRaceReports returns what the race detector has written since the last call.
//
//go:norace
func newRaceReports() string {
	dir := os.Getenv("MC_SCRATCH")
	files, _ := filepath.Glob(filepath.Join(dir, "race.*"))
	var sb strings.Builder
	for _, f := range files {
		b, err := os.ReadFile(f)
		if err != nil {
			continue
		}
		if int64(len(b)) > raceLogSeen[f] {
			sb.Write(b[raceLogSeen[f]:])
			raceLogSeen[f] = int64(len(b))
		}
	}
	return sb.String()
}

// raceSig classifies a report by the first gnet frames of the two accesses.
//
//go:norace
func raceSig(rep string) string {
	var frames []string
	lines := strings.Split(rep, "\n")
	for i, l := range lines {
		if strings.HasPrefix(l, "Write at") || strings.HasPrefix(l, "Read at") || strings.HasPrefix(l, "Previous write at") || strings.HasPrefix(l, "Previous read at") {
			for j := i + 1; j < len(lines) && j < i+12; j++ {
				f := strings.TrimSpace(lines[j])
				if strings.HasPrefix(f, "github.com/panjf2000/gnet/v2") && !strings.Contains(f, "verifmc") && !strings.Contains(f, "zz_") {
					f = strings.TrimPrefix(f, "github.com/panjf2000/gnet/v2")
					if k := strings.IndexByte(f, '('); k > 0 && !strings.HasPrefix(f, ".(") {
						f = f[:k]
					}
					frames = append(frames, strings.TrimSuffix(strings.TrimSpace(f), "()"))
					break
				}
			}
		}
	}
	if len(frames) > 2 {
		frames = frames[:2]
	}
	// one race, one signature: which of the two accesses the detector names first depends on the
	// order in which the schedule executed them
	if len(frames) == 2 && frames[1] < frames[0] {
		frames[0], frames[1] = frames[1], frames[0]
	}
	return "race:" + strings.Join(frames, "|")
}

//go:norace
func (r *raceW) Check(out *sched.Outcome) (string, string) {
	defer mcsys.CloseAllOpen()
	if rep := newRaceReports(); strings.Contains(rep, "DATA RACE") {
		first := rep
		if i := strings.Index(first, "=================="); i >= 0 {
			first = first[i:]
		}
		if len(first) > 3500 {
			first = first[:3500]
		}
		return "the race detector reported a data race in this schedule:\n" + first, raceSig(rep)
	}
	if r.confine != "" {
		return r.confine, "confine:overlap"
	}
	if out.End != "complete" {
		return fmt.Sprintf("execution ended with %s (blocked %v)", out.End, out.Blocked), "race:end:" + out.End
	}
	if !r.runDone || r.runErr != nil {
		return fmt.Sprintf("Run: done=%v err=%v", r.runDone, r.runErr), "race:run"
	}
	return "", ""
}

func raceConfigs() []raceCfg {
	var out []raceCfg
	kinds := []string{"async", "close", "sockopts", "stop", "execute-register", "count-during-start", "count-close", "register-fault"}
	for _, k := range kinds {
		for _, et := range []bool{false, true} {
			loops := 1
			if k == "stop" || k == "count-during-start" {
				loops = 2
			}
			out = append(out, raceCfg{name: fmt.Sprintf("race/%s/%s", k, map[bool]string{false: "LT", true: "ET"}[et]), et: et, loops: loops, kind: k})
		}
	}
	if os.Getenv("MC_C05_CONTROL") == "1" {
		out = append(out, raceCfg{name: "race/control-setcontext/LT", loops: 1, kind: "control-setcontext"})
	}
	return out
}

func TestMC_C05(t *testing.T) {
	thorough := seqmc.Tier() == "thorough"
	bounds := []sched.Bound{{PB: 0}, {PB: 1}}
	if thorough {
		bounds = append(bounds, sched.Bound{PB: 2})
	}
	var cfgs []sched.Config
	for _, c := range raceConfigs() {
		c := c
		bounds := bounds
		if c.kind == "register-fault" {
			bounds = []sched.Bound{{PB: 0, DB: 0}, {PB: 0, DB: 1}, {PB: 1, DB: 1}}
		}
		cfgs = append(cfgs, sched.Config{Property: "C05", Name: c.name, Bounds: bounds, Horizon: 40000, Deadline: seqmc.Deadline(), DelayBounded: true, NoReplayConfirm: true, New: func() sched.Scenario {
			return &raceW{cfg: c, addr: "unix://" + sockPath(), path: sockPath()}
		}})
	}
	newRaceReports() // reports produced before the first execution (none expected) do not count
	runEngineCheck(t, "C05", cfgs, func(name string) *sched.Config {
		for i := range cfgs {
			if cfgs[i].Name == name {
				return &cfgs[i]
			}
		}
		return nil
	}, fmt.Sprintf("%d scenarios (user goroutines calling AsyncWrite/AsyncWritev/Wake/Close/CloseWithCallback/SafeContext/SetSafeContext/Fd/Dup/socket options/Execute/Register/CountConnections/Stop against accept, traffic, close, tick, engine start and stop) x {LT,ET}, built with -race and futex hand-offs: every schedule within the delay bound is judged by the race detector and by the confinement monitor", len(cfgs)))
}

//go:norace
func (r *raceW) Cleanup() { mcsys.CloseAllOpen() }
