//go:build verifmc

package gnet

// C19 — engine and client control API obey their state machine.

import (
	"context"
	"errors"
	"fmt"
	"net"
	"os"
	"strings"
	"testing"

	"golang.org/x/sys/unix"

	"github.com/panjf2000/gnet/v2/internal/verifmc/mcsys"
	"github.com/panjf2000/gnet/v2/internal/verifmc/sched"
	"github.com/panjf2000/gnet/v2/internal/verifmc/seqmc"
	errorx "github.com/panjf2000/gnet/v2/pkg/errors"
)

var ctlOps = []string{"Validate", "CountConnections", "Dup", "DupListener-ok", "DupListener-unknown", "Register-empty", "Register-conn", "Register-unixgram", "Execute-nil", "Execute-run", "Execute-returns-inshutdown", "Stop-cancelled", "Stop-live"}

type ctlState struct {
	w          *world
	path       string
	execRuns   int
	execWant   int
	regResults int
	regWant    int
	regConns   []Conn
	stopNilAt  int // ledger position when a Stop returned nil
	peerFds    []int
	stopIssued bool // some user thread has called Stop (any flavour)
}

type errRunnable struct{ f func() error }

func (r errRunnable) Run(context.Context) error { return r.f() }

type runnable struct{ f func() }

func (r runnable) Run(context.Context) error { r.f(); return nil }

// phase: "running", "stopping" (either class is acceptable), "stopped"
func (cs *ctlState) do(op string, phase string) {
	w := cs.w
	eng := w.eng
	bad := func(format string, a ...interface{}) {
		w.violate("ctl:"+op+":"+phase, "%s in phase %s: %s", op, phase, fmt.Sprintf(format, a...))
	}
	// expectErr checks err against the reference state machine
	expectErr := func(err error, runningWant error) {
		if phase == "running" && cs.stopIssued {
			// the other user thread has requested the shutdown in the meantime: from here on either
			// class of answer is acceptable for this call
			phase = "stopping"
		}
		switch phase {
		case "running":
			if !errors.Is(err, runningWant) && !(runningWant == nil && err == nil) {
				bad("returned %v, want %v", err, runningWant)
			}
		case "stopped":
			if !errors.Is(err, errorx.ErrEngineInShutdown) {
				bad("returned %v, want the in-shutdown error", err)
			}
		default:
			if !(errors.Is(err, errorx.ErrEngineInShutdown) || errors.Is(err, runningWant) || (runningWant == nil && err == nil)) {
				bad("returned %v during shutdown (neither the running-state answer %v nor the in-shutdown error)", err, runningWant)
			}
		}
	}
	switch op {
	case "Validate":
		expectErr(eng.Validate(), nil)
	case "CountConnections":
		n := eng.CountConnections()
		if phase == "running" && cs.stopIssued {
			phase = "stopping"
		}
		switch phase {
		case "running":
			if n < 0 {
				bad("returned %d for a running engine", n)
			}
		case "stopped":
			if n != -1 {
				bad("returned %d after shutdown, want -1", n)
			}
		}
	case "Dup", "DupListener-ok", "DupListener-unknown":
		var fd int
		var err error
		switch op {
		case "Dup":
			fd, err = eng.Dup()
			expectErr(err, nil)
		case "DupListener-ok":
			fd, err = eng.DupListener("unix", cs.path)
			expectErr(err, nil)
		default:
			fd, err = eng.DupListener("tcp", "1.2.3.4:5")
			expectErr(err, errorx.ErrInvalidNetworkAddress)
		}
		if err == nil {
			if fd <= 2 {
				bad("returned descriptor %d without error", fd)
			} else {
				mcsys.Transfer(fd, "dup-for-user")
				// the descriptor belongs to the application now: it must stay valid until we close it
				cs.peerFds = append(cs.peerFds, fd)
			}
		} else if fd != -1 {
			bad("returned descriptor %d together with error %v", fd, err)
		}
	case "Register-empty":
		ch, err := eng.Register(context.Background())
		expectErr(err, errorx.ErrInvalidNetworkAddress)
		if err == nil || ch != nil && err != nil {
			bad("returned channel=%v err=%v for a context without target", ch != nil, err)
		}
	case "Register-unixgram":
		// an unsupported kind of Unix-domain socket (datagram): rejected, with exactly one result
		fds, err := unix.Socketpair(unix.AF_UNIX, unix.SOCK_DGRAM|unix.SOCK_CLOEXEC, 0)
		if err != nil {
			bad("socketpair: %v", err)
			return
		}
		f := os.NewFile(uintptr(fds[0]), "spdgram")
		nc, err := net.FileConn(f)
		_ = f.Close()
		mcsys.Adopt(fds[1], "user", "socketpair-peer")
		cs.peerFds = append(cs.peerFds, fds[1])
		if err != nil {
			bad("FileConn: %v", err)
			return
		}
		ch, err := eng.Register(NewNetConnContext(context.Background(), nc))
		expectErr(err, nil)
		if err != nil {
			_ = nc.Close()
			return
		}
		cs.regWant++
		sched.Go("regwait-dgram", func() {
			n := 0
			for {
				res, ok, timedOut := recvRes(w, ch)
				if timedOut {
					w.violate("ctl:Register:pending", "Register(unixgram conn) accepted the call but never delivered a result / never closed its channel")
					return
				}
				if !ok {
					break
				}
				n++
				if res.Conn != nil || res.Err == nil {
					w.violate("ctl:Register:unixgram", "Register of a unixgram connection delivered Conn=%v Err=%v (want the unsupported-protocol error)", res.Conn != nil, res.Err)
				}
			}
			if n != 1 {
				w.violate("ctl:Register:count", "Register(unixgram conn) delivered %d results (want exactly one)", n)
			}
			cs.regResults++
		})
		// let the registration run its course before the next call (Register-conn, in contrast, is
		// left racing with whatever comes next, including Stop)
		sched.WaitIdle()
	case "Register-conn":
		nc, pfd, err := socketpairConn()
		if err != nil {
			bad("socketpair: %v", err)
			return
		}
		cs.peerFds = append(cs.peerFds, pfd)
		ch, err := eng.Register(NewNetConnContext(context.Background(), nc))
		expectErr(err, nil)
		if err != nil {
			_ = nc.Close()
			return
		}
		cs.regWant++
		// exactly one result, then the channel is closed
		sched.Go("regwait", func() {
			n := 0
			for {
				res, ok, timedOut := recvRes(w, ch)
				if timedOut {
					w.violate("ctl:Register:pending", "Register accepted the call (channel, nil error) but never delivered a result: the engine shut down while the registration was still queued, the enrolling goroutine is parked for ever")
					return
				}
				if !ok {
					break
				}
				n++
				if (res.Conn == nil) == (res.Err == nil) {
					w.violate("ctl:Register:result", "Register delivered Conn=%v Err=%v (want exactly one of them)", res.Conn != nil, res.Err)
				}
				if res.Conn != nil {
					cs.regConns = append(cs.regConns, res.Conn)
				}
			}
			if n != 1 {
				w.violate("ctl:Register:count", "Register delivered %d results (want exactly one)", n)
			}
			cs.regResults++
		})
	case "Execute-nil", "Execute-run":
		if len(w.conns) == 0 {
			return
		}
		el := w.conns[0].loop
		if op == "Execute-nil" {
			expectErr(el.Execute(context.Background(), nil), errorx.ErrNilRunnable)
			return
		}
		err := el.Execute(context.Background(), runnable{func() { cs.execRuns++ }})
		expectErr(err, nil)
		if err == nil {
			cs.execWant++
		}
	case "Execute-returns-inshutdown":
		// a Runnable that hands on the documented "already in shutdown" error (what a handler gets from
		// Stop/Register on some other, stopped engine): it is an ordinary error, not a shutdown request
		if len(w.conns) == 0 {
			return
		}
		err := w.conns[0].loop.Execute(context.Background(), errRunnable{func() error { cs.execRuns++; return errorx.ErrEngineInShutdown }})
		expectErr(err, nil)
		if err == nil {
			cs.execWant++
		}
	case "Stop-live":
		// only issued by the second thread
		cs.stopIssued = true
		err := eng.Stop(context.Background())
		if err != nil && !errors.Is(err, errorx.ErrEngineInShutdown) {
			bad("returned %v", err)
		}
		if err == nil {
			cs.checkFullyShutDown("a concurrent Stop(live context) returned nil")
		}
	case "Stop-cancelled":
		ctx, cancel := context.WithCancel(context.Background())
		cancel()
		cs.stopIssued = true
		err := eng.Stop(ctx)
		switch phase {
		case "stopped":
			if !errors.Is(err, errorx.ErrEngineInShutdown) {
				bad("returned %v after shutdown", err)
			}
		default:
			if err != nil && !errors.Is(err, context.Canceled) && !errors.Is(err, errorx.ErrEngineInShutdown) {
				bad("returned %v (want the context's error, or nil if the shutdown had already completed)", err)
			}
			if err == nil {
				cs.checkFullyShutDown("Stop(cancelled ctx) returned nil")
			}
		}
	}
}

// checkFullyShutDown: Stop returned nil, so pollers and listeners must be closed already.
func (cs *ctlState) checkFullyShutDown(where string) {
	w := cs.w
	for fd := 0; fd < 256; fd++ {
		if mcsys.Owner(fd) == "fw" {
			kind := ""
			for _, s := range mcsys.OpenFrameworkFds() {
				if strings.HasPrefix(s, fmt.Sprintf("%d(", fd)) {
					kind = s
				}
			}
			if strings.Contains(kind, "epoll") || strings.Contains(kind, "socket") {
				w.violate("ctl:Stop:early", "%s although the engine has not fully shut down: %s is still open", where, kind)
				return
			}
		}
	}
	if w.shutdowns != 1 {
		w.violate("ctl:Stop:early", "%s but OnShutdown has run %d times", where, w.shutdowns)
	}
}

func ctlWorld(name string, et bool, concurrent bool, lb LoadBalancing) *world {
	w := newWorld(name)
	w.opts = append(w.opts, WithLoadBalancing(lb))
	if et {
		w.opts = append(w.opts, WithEdgeTriggeredIO(true))
	}
	cs := &ctlState{w: w, path: strings.TrimPrefix(w.addr, "unix://")}
	w.onTraffic = func(w *world, ci *connInfo) Action { _, _ = ci.c.Discard(-1); return None }
	w.script = func(w *world) {
		done := 0
		w.peerThread("peer", &done, func(p *peer) {
			if p.connect() {
				sched.BlockUntil(func() bool { return len(w.conns) > 0 })
			}
		})
		stopped := false
		sched.Go("user", func() {
			w.waitBoot()
			sched.BlockUntil(func() bool { return done >= 1 })
			cancelledStop := false
			for i := 0; i < 3; i++ {
				op := ctlOps[sched.Choose(len(ctlOps)-1, "ctl-running")] // Stop-live is the fixed step below
				if f := os.Getenv("MC_CTL_FIRST"); f != "" && i == 0 {
					op = f // development aid: fixed first call
				}
				phase := "running"
				cs.do(op, phase)
				if op == "Stop-cancelled" {
					cancelledStop = true
					break
				}
			}
			if cancelledStop {
				// Stop returned the context's error: the shutdown it started must complete on its own
				sched.BlockUntil(func() bool { return w.runDone })
			} else {
				// Stop with a live context: nil only after the engine has fully shut down
				cs.stopIssued = true
				err := w.eng.Stop(context.Background())
				if err != nil && !errors.Is(err, errorx.ErrEngineInShutdown) {
					w.violate("ctl:Stop:err", "Stop(live context) returned %v", err)
				}
				if err == nil {
					cs.checkFullyShutDown("Stop(live context) returned nil")
				}
			}
			stopped = true
			sched.BlockUntil(func() bool { return w.runDone })
			for i := 0; i < 2; i++ {
				op := ctlOps[sched.Choose(len(ctlOps)-1, "ctl-stopped")]
				cs.do(op, "stopped")
			}
			if err := w.eng.Stop(context.Background()); !errors.Is(err, errorx.ErrEngineInShutdown) {
				w.violate("ctl:Stop:twice", "a second Stop after shutdown returned %v", err)
			}
			for _, fd := range cs.peerFds {
				// descriptors handed to the application are still ours: closing them must succeed
				if err := unix.Close(fd); err != nil && mcsys.Owner(fd) == "user" {
					w.violate("ctl:Dup:closed", "a descriptor handed out by Dup/DupListener (or our socketpair end) was closed by someone else: close(%d) = %v", fd, err)
				}
				mcsys.Transfer(fd, "closed-by-user")
				if mcsys.L != nil {
					// mark closed in the ledger
					mcsys.Forget(fd)
				}
			}
		})
		if concurrent {
			sched.Go("user2", func() {
				w.waitBoot()
				sched.BlockUntil(func() bool { return done >= 1 })
				for i := 0; i < 2; i++ {
					op := ctlOps[sched.Choose(len(ctlOps), "ctl-concurrent")]
					phase := "stopping"
					if stopped {
						phase = "stopped"
					}
					cs.do(op, phase)
				}
			})
		}
		w.closerAfterRun()
	}
	w.checks = append(w.checks, func(w *world, out *sched.Outcome) (string, string) {
		if out.End == "deadlock" {
			for _, b := range out.Blocked {
				if b != "worker" {
					return checkEnd(w, out)
				}
			}
			return "", "" // only gnet's own enrolling goroutine is parked: judged by the Register monitor
		}
		return checkEnd(w, out)
	}, func(w *world, out *sched.Outcome) (string, string) {
		if !w.runDone || w.runErr != nil {
			return fmt.Sprintf("Run did not return nil (done=%v err=%v end=%s blocked=%v)", w.runDone, w.runErr, out.End, out.Blocked), "ctl:run"
		}
		if cs.regResults != cs.regWant {
			return fmt.Sprintf("%d Register calls were accepted, %d delivered their result and closed the channel", cs.regWant, cs.regResults), "ctl:Register:pending"
		}
		if cs.execRuns > cs.execWant {
			return fmt.Sprintf("%d runnables accepted, %d runs", cs.execWant, cs.execRuns), "ctl:Execute:dup"
		}
		if len(w.afterRun) > 0 {
			return "callbacks after Run returned: " + strings.Join(w.afterRun, ", "), "ctl:after-run"
		}
		return "", ""
	})
	return w
}

// zeroEngineCheck: an engine handle that was never started.
func zeroEngineCheck() string {
	// the state errors are distinct from the shutdown request: handing one of them on as the result
	// of a callback or Runnable must not be taken for "shut the engine down"
	for name, e := range map[string]error{"ErrEngineInShutdown": errorx.ErrEngineInShutdown, "ErrEmptyEngine": errorx.ErrEmptyEngine} {
		if errors.Is(e, errorx.ErrEngineShutdown) {
			return fmt.Sprintf("errors.Is(%s, ErrEngineShutdown) holds: the state error doubles as a shutdown request", name)
		}
	}
	var e Engine
	if err := e.Validate(); !errors.Is(err, errorx.ErrEmptyEngine) {
		return fmt.Sprintf("zero Engine: Validate() = %v", err)
	}
	if err := e.Stop(context.Background()); !errors.Is(err, errorx.ErrEmptyEngine) {
		return fmt.Sprintf("zero Engine: Stop() = %v", err)
	}
	if _, err := e.Register(context.Background()); !errors.Is(err, errorx.ErrEmptyEngine) {
		return fmt.Sprintf("zero Engine: Register() = %v", err)
	}
	if fd, err := e.Dup(); !errors.Is(err, errorx.ErrEmptyEngine) || fd != -1 {
		return fmt.Sprintf("zero Engine: Dup() = %d, %v", fd, err)
	}
	if fd, err := e.DupListener("tcp", "x"); !errors.Is(err, errorx.ErrEmptyEngine) || fd != -1 {
		return fmt.Sprintf("zero Engine: DupListener() = %d, %v", fd, err)
	}
	if n := e.CountConnections(); n != -1 {
		return fmt.Sprintf("zero Engine: CountConnections() = %d", n)
	}
	return ""
}

// enrollFaultWorld: EventLoop.Enroll / Engine.Register while the registration with the poller fails.
func enrollFaultWorld(et bool) *world {
	w := newWorld("enroll-fault")
	w.opts = append(w.opts, WithLoadBalancing(LeastConnections))
	if et {
		w.opts = append(w.opts, WithEdgeTriggeredIO(true))
	}
	w.deviate = func(site string, fd int, n int) []string {
		if site == "epoll_ctl_add" && mcsys.KindOf(fd) == "dup" {
			return []string{"ENOMEM"}
		}
		return nil
	}
	var results []RegisteredResult
	var regErr error
	finished := false
	var nc net.Conn
	w.script = func(w *world) {
		sched.Go("user", func() {
			w.waitBoot()
			var pfd int
			var err error
			nc, pfd, err = socketpairConn()
			if err != nil {
				return
			}
			ch, err := w.eng.Register(NewNetConnContext(context.Background(), nc))
			regErr = err
			if err == nil {
				for {
					res, ok, timedOut := recvRes(w, ch)
					if timedOut || !ok {
						break
					}
					results = append(results, res)
				}
			}
			finished = true
			sched.WaitIdle()
			_ = unix.Close(pfd)
			mcsys.Forget(pfd)
			_ = w.eng.Stop(context.Background())
		})
	}
	w.checks = append(w.checks, checkEnd, func(w *world, out *sched.Outcome) (string, string) {
		if !finished {
			return fmt.Sprintf("Register never delivered its result (end=%s blocked=%v)", out.End, out.Blocked), "ctl:Register:pending"
		}
		if regErr != nil {
			return "", ""
		}
		if len(results) != 1 {
			return fmt.Sprintf("Register delivered %d results", len(results)), "ctl:Register:count"
		}
		injected := false
		for _, e := range mcsys.L.Events {
			if e.Inject == "ENOMEM" {
				injected = true
			}
		}
		r := results[0]
		if injected && r.Err == nil {
			return "the registration of the enrolled connection with the poller failed (epoll_ctl add: ENOMEM) but Register delivered a connection and no error; the connection had been released and its descriptor closed", "ctl:Register:released"
		}
		if !injected && (r.Err != nil || r.Conn == nil) {
			return fmt.Sprintf("fault-free Register delivered Conn=%v Err=%v", r.Conn != nil, r.Err), "ctl:Register:result"
		}
		if len(mcsys.L.Violations) > 0 {
			return ledgerFirst("")
		}
		return "", ""
	})
	return w
}

// clientEnrollFaultWorld: the same failure on the client side. Client.Enroll of a socketpair end
// while epoll_ctl(ADD) of the duplicated descriptor fails: Enroll must return an error and no
// connection (exactly one result), no callback may run for it, the duplicate is closed exactly once
// (descriptor ledger: a second close could hit a number that already belongs to someone else),
// and the client keeps working: a second, fault-free Enroll is served and Stop returns nil.
func clientEnrollFaultWorld(et bool) sched.Scenario {
	w := newWorld("client-enroll-fault")
	cw := &clientWorld{world: w}
	w.onTraffic = echoTraffic
	active := true
	w.deviate = func(site string, fd int, n int) []string {
		if active && site == "epoll_ctl_add" && mcsys.KindOf(fd) == "dup" {
			return []string{"ENOMEM"}
		}
		return nil
	}
	var c1 Conn
	var err1 error
	cw.body = func(cw *clientWorld) {
		opts := []Option{WithLogger(nopLogger{}), WithNumEventLoop(1)}
		if et {
			opts = append(opts, WithEdgeTriggeredIO(true))
		}
		cli, err := NewClient(&mcHandler{w}, opts...)
		if err != nil {
			w.violate("client:new", "NewClient: %v", err)
			return
		}
		if err := cli.Start(); err != nil {
			w.violate("client:start", "Client.Start: %v", err)
			return
		}
		nc, pfd, err := socketpairConn()
		if err != nil {
			w.violate("client:socketpair", "%v", err)
			return
		}
		c1, err1 = cli.Enroll(nc)
		sched.WaitIdle()
		active = false
		injected := false
		for _, e := range mcsys.L.Events {
			if e.Inject == "ENOMEM" {
				injected = true
			}
		}
		if injected && err1 == nil {
			w.violate("ctl:Enroll:released", "the registration of the enrolled connection with the poller failed (epoll_ctl add: ENOMEM) but Client.Enroll returned a connection and no error")
		}
		if injected && len(w.conns) > 0 {
			w.violate("ctl:Enroll:callbacks", "Client.Enroll failed but %d connection(s) saw callbacks", len(w.conns))
		}
		if !injected && (err1 != nil || c1 == nil) {
			w.violate("ctl:Enroll:result", "fault-free Client.Enroll returned Conn=%v Err=%v", c1 != nil, err1)
		}
		// liveness: a second connection is served
		nc2, pfd2, err := socketpairConn()
		if err != nil {
			w.violate("client:socketpair", "%v", err)
			return
		}
		p := w.newPeer()
		p.fd = pfd2
		if _, err := cli.Enroll(nc2); err != nil {
			w.violate("ctl:Enroll:second", "after a failed Enroll a second, fault-free Client.Enroll returned %v", err)
		} else {
			p.send([]byte("ping"))
			p.recv(4)
			if string(p.got) != "ping" {
				w.violate("client:echo", "after a failed Enroll the next client connection echoed %q", p.got)
			}
		}
		w.runErr = cli.Stop()
		p.recvAvail()
		p.close()
		_ = unix.Close(pfd)
		mcsys.Forget(pfd)
	}
	w.checks = append(w.checks, checkEnd, func(w *world, out *sched.Outcome) (string, string) {
		for _, ci := range w.conns {
			if ci.opens != 1 || ci.closes != 1 || len(ci.afterClose) > 0 {
				return fmt.Sprintf("client connection #%d: OnOpen %d times, OnClose %d times, after close: %v", ci.id, ci.opens, ci.closes, ci.afterClose), "client:lifecycle"
			}
		}
		if m, s := fdCheck(w, out); m != "" {
			return m, s
		}
		return "", ""
	})
	return cw
}

// fatalAcceptWorld: an event loop dies of a hard error (accept4 fails with EMFILE, which the
// acceptor does not retry): the whole engine shuts down. That is gnet's design; what the
// properties ask is that this shutdown is as complete as a requested one: Run returns, every
// opened connection gets its OnClose (C04/C06), OnShutdown runs once, every descriptor is closed
// (C07) and the handle reports the in-shutdown state afterwards (C19).
func fatalAcceptWorld(et, reuseport bool) *world {
	w := newWorld("accept-fatal-error")
	if et {
		w.opts = append(w.opts, WithEdgeTriggeredIO(true))
	}
	if reuseport {
		a := &unix.SockaddrInet4{Addr: [4]byte{127, 0, 0, 1}}
		w.addr = fmt.Sprintf("tcp://127.0.0.1:%d", freeTCPPort(a, false))
		w.opts = append(w.opts, WithReusePort(true), WithReuseAddr(true))
	}
	armed := false
	w.deviate = func(site string, fd int, n int) []string {
		if site == "accept4" && armed {
			return []string{"EMFILE"}
		}
		return nil
	}
	w.script = func(w *world) {
		if reuseport {
			sched.SetSettle(6)
		}
		done := 0
		bothOpen := func() bool { return len(w.conns) >= 2 && w.conns[0].opens > 0 && w.conns[1].opens > 0 }
		for i := 0; i < 2; i++ {
			w.peerThread(fmt.Sprintf("peer%d", i), &done, func(p *peer) {
				if p.connect() {
					sched.BlockUntil(bothOpen)
				}
			})
		}
		w.peerThread("late-peer", &done, func(p *peer) {
			sched.BlockUntil(bothOpen)
			sched.WaitIdle()
			armed = true
			p.connect()
		})
		sched.Go("ctl", func() {
			w.waitBoot()
			sched.BlockUntil(func() bool { return done >= 3 })
			sched.WaitIdle()
			if !w.runDone {
				_ = w.eng.Stop(context.Background()) // no fault was injected in this execution: an ordinary stop
			}
		})
		w.closerAfterRun()
	}
	w.checks = append(w.checks, checkEnd, func(w *world, out *sched.Outcome) (string, string) {
		inj := ""
		for _, e := range mcsys.L.Events {
			if e.Inject == "EMFILE" {
				inj = " (accept4 failed with EMFILE, injected)"
			}
		}
		if !w.runDone {
			return fmt.Sprintf("Run has not returned%s (end=%s blocked=%v)", inj, out.End, out.Blocked), "fatal:run-hangs"
		}
		if w.shutdowns != 1 {
			return fmt.Sprintf("OnShutdown ran %d times%s", w.shutdowns, inj), "fatal:onshutdown-count"
		}
		for _, ci := range w.conns {
			if ci.opens > 0 && ci.closes != 1 {
				return fmt.Sprintf("connection #%d was opened but saw OnClose %d times before Run returned%s", ci.id, ci.closes, inj), "fatal:no-close"
			}
		}
		if len(w.afterRun) > 0 {
			return "callbacks after Run returned" + inj + ": " + strings.Join(w.afterRun, ", "), "fatal:after-run"
		}
		if err := w.eng.Validate(); !errors.Is(err, errorx.ErrEngineInShutdown) {
			return fmt.Sprintf("after Run returned%s Validate() = %v, want the in-shutdown error", inj, err), "fatal:handle-state"
		}
		if n := w.eng.CountConnections(); n != -1 {
			return fmt.Sprintf("after Run returned%s CountConnections() = %d, want -1", inj, n), "fatal:handle-state"
		}
		if err := w.eng.Stop(context.Background()); !errors.Is(err, errorx.ErrEngineInShutdown) {
			return fmt.Sprintf("after Run returned%s Stop() = %v, want the in-shutdown error", inj, err), "fatal:handle-state"
		}
		if m, s := fdCheck(w, out); m != "" {
			return m + inj, s
		}
		return "", ""
	})
	return w
}

func fatalAcceptConfigs(prop string) []sched.Config {
	var out []sched.Config
	for _, et := range []bool{false, true} {
		for _, rp := range []bool{false, true} {
			et, rp := et, rp
			name := "accept-fatal-error/" + map[bool]string{false: "reactor", true: "tcp-reuseport"}[rp] + "/" + map[bool]string{false: "LT", true: "ET"}[et]
			out = append(out, sched.Config{Property: prop, Name: name, Bounds: []sched.Bound{{PB: 0, DB: 0}, {PB: 0, DB: 1}, {PB: 1, DB: 1}}, Horizon: 40000, Deadline: seqmc.Deadline(), DelayBounded: true, TolerateNondeterminism: rp,
				New: func() sched.Scenario { w := fatalAcceptWorld(et, rp); w.name = name; return w }})
		}
	}
	return out
}

// enrollDeadPeerWorld: Register of a connection whose peer has already gone while OnOpen answers
// with data: the registration succeeds, the OnOpen reply cannot be written. Whatever the engine
// makes of that, the caller gets exactly one result (a connection or an error) and the channel
// is closed: no path through the registration may forget the completion.
func enrollDeadPeerWorld(et bool) *world {
	w := newWorld("enroll-dead-peer")
	if et {
		w.opts = append(w.opts, WithEdgeTriggeredIO(true))
	}
	w.onOpen = func(w *world, ci *connInfo) ([]byte, Action) { return []byte("hello"), None }
	var results []RegisteredResult
	var regErr error
	finished, pending := false, false
	w.script = func(w *world) {
		sched.Go("user", func() {
			w.waitBoot()
			nc, pfd, err := socketpairConn()
			if err != nil {
				return
			}
			_ = unix.Close(pfd) // the peer is gone before the connection is handed to the engine
			mcsys.Forget(pfd)
			ch, err := w.eng.Register(NewNetConnContext(context.Background(), nc))
			regErr = err
			if err == nil {
				for {
					res, ok, timedOut := recvRes(w, ch)
					if timedOut {
						pending = true
						break
					}
					if !ok {
						break
					}
					results = append(results, res)
				}
			}
			finished = true
			sched.WaitIdle()
			_ = w.eng.Stop(context.Background())
		})
	}
	w.checks = append(w.checks, checkEnd, func(w *world, out *sched.Outcome) (string, string) {
		if !finished || pending {
			return fmt.Sprintf("Register of a connection whose peer had gone never delivered its result although the engine kept running (OnOpen's reply could not be written; end=%s blocked=%v)", out.End, out.Blocked), "ctl:Register:pending-failed-open"
		}
		if regErr != nil {
			return "", ""
		}
		if len(results) != 1 {
			return fmt.Sprintf("Register delivered %d results", len(results)), "ctl:Register:count"
		}
		if r := results[0]; (r.Conn == nil) == (r.Err == nil) {
			return fmt.Sprintf("Register delivered Conn=%v Err=%v (want exactly one of them)", r.Conn != nil, r.Err), "ctl:Register:result"
		}
		for _, ci := range w.conns {
			if ci.opens != 1 || ci.closes != 1 || len(ci.afterClose) > 0 {
				return fmt.Sprintf("connection #%d: OnOpen %d times, OnClose %d times, after close: %v", ci.id, ci.opens, ci.closes, ci.afterClose), "ctl:Register:lifecycle"
			}
		}
		if m, s := fdCheck(w, out); m != "" {
			return m, s
		}
		return "", ""
	})
	return w
}

func ctlSchedConfigs() ([]sched.Config, func(string) *sched.Config) {
	thorough := seqmc.Tier() == "thorough"
	bounds := []sched.Bound{{PB: 0, DB: 0}, {PB: 0, DB: 1}, {PB: 1, DB: 0}, {PB: 0, DB: 2}, {PB: 1, DB: 1}}
	if thorough {
		bounds = append(bounds, sched.Bound{PB: 2, DB: 1}, sched.Bound{PB: 1, DB: 2}, sched.Bound{PB: 0, DB: 3})
	}
	var out []sched.Config
	for _, et := range []bool{false, true} {
		for _, conc := range []bool{false, true} {
			et, conc := et, conc
			name := fmt.Sprintf("control/%s/concurrent=%v", map[bool]string{false: "LT", true: "ET"}[et], conc)
			b := bounds
			if conc {
				b = []sched.Bound{{PB: 0, DB: 0}, {PB: 0, DB: 1}, {PB: 1, DB: 0}, {PB: 1, DB: 1}}
				if thorough {
					b = append(b, sched.Bound{PB: 0, DB: 2}, sched.Bound{PB: 2, DB: 1})
				}
			}
			out = append(out, sched.Config{Property: "C19", Name: name, Bounds: b, Horizon: 40000, Deadline: seqmc.Deadline(), DelayBounded: true,
				New: func() sched.Scenario { return ctlWorld(name, et, conc, LeastConnections) }})
		}
		if !et {
			// the argument checks of Register must not depend on the balancer
			nameH := "control/LT/source-addr-hash"
			out = append(out, sched.Config{Property: "C19", Name: nameH, Bounds: []sched.Bound{{PB: 0, DB: 0}, {PB: 0, DB: 1}, {PB: 0, DB: 2}}, Horizon: 40000, Deadline: seqmc.Deadline(), DelayBounded: true,
				New: func() sched.Scenario { return ctlWorld(nameH, false, false, SourceAddrHash) }})
		}
		et3 := et
		nameC := fmt.Sprintf("client-enroll-fault/%s", map[bool]string{false: "LT", true: "ET"}[et])
		out = append(out, sched.Config{Property: "C19", Name: nameC, Bounds: []sched.Bound{{PB: 0, DB: 0}, {PB: 0, DB: 1}, {PB: 1, DB: 1}}, Horizon: 40000, Deadline: seqmc.Deadline(), DelayBounded: true,
			New: func() sched.Scenario { return clientEnrollFaultWorld(et3) }})
		et2 := et
		name := fmt.Sprintf("enroll-fault/%s", map[bool]string{false: "LT", true: "ET"}[et])
		out = append(out, sched.Config{Property: "C19", Name: name, Bounds: []sched.Bound{{PB: 0, DB: 0}, {PB: 0, DB: 1}, {PB: 1, DB: 1}}, Horizon: 40000, Deadline: seqmc.Deadline(), DelayBounded: true,
			New: func() sched.Scenario { w := enrollFaultWorld(et2); w.name = name; return w }})
	}
	for _, et := range []bool{false, true} {
		et := et
		name := "enroll-dead-peer/" + map[bool]string{false: "LT", true: "ET"}[et]
		out = append(out, sched.Config{Property: "C19", Name: name, Bounds: engineBounds(2, 3, 0), Horizon: 40000, Deadline: seqmc.Deadline(), DelayBounded: true,
			New: func() sched.Scenario { w := enrollDeadPeerWorld(et); w.name = name; return w }})
	}
	out = append(out, fatalAcceptConfigs("C19")...)
	return out, func(name string) *sched.Config {
		for i := range out {
			if out[i].Name == name {
				return &out[i]
			}
		}
		return nil
	}
}

func TestMC_C19(t *testing.T) {
	if msg := zeroEngineCheck(); msg != "" && seqmc.ReplayFile() == "" {
		var res seqmc.Result
		res.Property = "C19"
		res.Violations = append(res.Violations, seqmc.Violation{Property: "C19", Scenario: "zero-engine", Sig: "ctl:zero-engine", Msg: msg, Replays: 5})
		res.Evaluations = 1
		_ = res.Write()
		return
	}
	cfgs, byName := ctlSchedConfigs()
	runEngineCheck(t, "C19", cfgs, byName, fmt.Sprintf("zero Engine handle; %d control-call alphabet; sequences of 3 calls while running + Stop(live ctx) + 2 calls after shutdown + second Stop by one user thread, optionally 2 more calls by a second thread racing with the shutdown; every choice of calls within the deviation bound and every schedule within the delay bound listed per scenario; Register/Enroll with an injected epoll_ctl(ADD) failure", len(ctlOps)))
}

// recvRes receives from a Register/Enroll result channel without side effects in scheduler
// predicates: it polls and parks until some other thread has made progress. timedOut is reported
// when Run has returned and the system is quiescent, i.e. nobody can deliver any more.
func recvRes(w *world, ch <-chan RegisteredResult) (res RegisteredResult, ok bool, timedOut bool) {
	for {
		select {
		case res, ok = <-ch:
			return res, ok, false
		default:
		}
		if w.runDone {
			sched.WaitIdle()
			select {
			case res, ok = <-ch:
				return res, ok, false
			default:
				return res, false, true
			}
		}
		sched.Block()
	}
}
