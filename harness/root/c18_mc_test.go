//go:build verifmc

package gnet

// C18 — an I/O failure on one connection stays on that connection (fault enumeration).
// Every system-call site of the I/O path x every call index x every errno of a realistic set is
// injected one at a time (deviation bound 1) and in pairs (bound 2, thorough) while two
// connections carry checked echo traffic and a probe connection tests liveness at the end.

import (
	"bytes"
	"context"
	"fmt"
	"os"
	"strings"
	"testing"

	"golang.org/x/sys/unix"

	"github.com/panjf2000/gnet/v2/internal/verifmc/mcsys"
	"github.com/panjf2000/gnet/v2/internal/verifmc/sched"
	"github.com/panjf2000/gnet/v2/internal/verifmc/seqmc"
)

var retryable = map[string]bool{"read:EAGAIN": true, "write:EAGAIN": true, "writev:EAGAIN": true, "epoll_wait:EINTR": true,
	"accept4:EINTR": true, "accept4:ECONNABORTED": true, "accept4:ECONNRESET": true}

func isConnFd(fd int) bool {
	if mcsys.L == nil {
		return false
	}
	for i := len(mcsys.L.Events) - 1; i >= 0; i-- {
		e := mcsys.L.Events[i]
		if e.N == fd && e.Err == "" {
			switch e.Op {
			case "accept4", "accept":
				return mcsys.Owner(fd) == "fw"
			case "socket", "epoll_create1", "eventfd", "fcntl", "dup":
				return false
			}
		}
	}
	return false
}

func faultPolicy(lt bool, active *bool) func(site string, fd int, n int) []string {
	return func(site string, fd int, n int) []string {
		if !*active {
			return nil // the liveness probe and the shutdown run fault-free
		}
		switch site {
		case "read":
			if isConnFd(fd) {
				if lt {
					return []string{"ECONNRESET", "ETIMEDOUT", "EAGAIN"}
				}
				return []string{"ECONNRESET", "ETIMEDOUT"}
			}
		case "write", "writev":
			if isConnFd(fd) {
				if lt {
					return []string{"EPIPE", "ECONNRESET", "EAGAIN"}
				}
				return []string{"EPIPE", "ECONNRESET"}
			}
		case "accept4":
			return []string{"EINTR", "ECONNABORTED", "ECONNRESET"}
		case "epoll_ctl_add":
			if isConnFd(fd) {
				return []string{"ENOMEM"}
			}
		case "epoll_ctl_mod":
			if isConnFd(fd) {
				return []string{"ENOENT", "ENOMEM"}
			}
		case "epoll_ctl_del":
			if isConnFd(fd) {
				return []string{"ENOENT", "EBADF"}
			}
		case "close":
			if isConnFd(fd) {
				return []string{"EINTR"}
			}
		case "epoll_wait":
			return []string{"EINTR"}
		}
		return nil
	}
}

type faultPeer struct {
	p        *peer
	msgs     [][]byte
	complete bool // all echoes received
	died     bool // EOF / error before the end
}

func echoMsg(conn, round, n int) []byte {
	b := make([]byte, n)
	for i := range b {
		b[i] = byte((conn*53 + round*17 + i*7 + 3) % 251)
	}
	return b
}

func (fp *faultPeer) run() {
	p := fp.p
	if !p.connect() {
		fp.died = true
		return
	}
	want := 0
	for _, m := range fp.msgs {
		if !p.send(m) {
			fp.died = true
			break
		}
		want += len(m)
		p.recv(want)
		if len(p.got) < want {
			fp.died = true
			break
		}
	}
	if !fp.died {
		fp.complete = true
	}
	p.close()
}

func faultWorld(mode string, big bool) *world {
	w := newWorld("fault/" + mode)
	lt := mode == "LT"
	if !lt {
		w.opts = append(w.opts, WithEdgeTriggeredIO(true))
	}
	w.opts = append(w.opts, WithReadBufferCap(1024), WithWriteBufferCap(1024))
	active := true
	w.deviate = faultPolicy(lt, &active)
	w.onTraffic = echoTraffic
	sizes := []int{3, 700}
	if big {
		sizes = []int{3, 1500, 2}
	}
	var fps []*faultPeer
	probeOK := false
	w.script = func(w *world) {
		done := 0
		for i := 0; i < 2; i++ {
			fp := &faultPeer{p: w.newPeer()}
			for r, n := range sizes {
				fp.msgs = append(fp.msgs, echoMsg(i, r, n))
			}
			fps = append(fps, fp)
			sched.Go(fmt.Sprintf("peer%d", i), func() {
				defer func() { done++ }()
				w.waitBoot()
				fp.run()
			})
		}
		sched.Go("ctl", func() {
			w.waitBoot()
			sched.BlockUntil(func() bool { return done >= 2 })
			sched.WaitIdle()
			active = false
			// liveness probe: a fresh connection must still be served
			pr := &faultPeer{p: w.newPeer(), msgs: [][]byte{echoMsg(9, 0, 5)}}
			pr.run()
			probeOK = pr.complete
			sched.WaitIdle()
			w.countCheck("after the probe")
			_ = w.eng.Stop(context.Background())
		})
	}
	w.checks = append(w.checks, checkEnd, func(w *world, out *sched.Outcome) (string, string) {
		// which faults were injected, and on whose behalf
		var injected []string
		victimFds := map[int]bool{}
		allRetryable := true
		for _, e := range mcsys.L.Events {
			if e.Inject != "" && !strings.HasPrefix(e.Inject, "short") {
				k := e.Op + ":" + e.Inject
				injected = append(injected, fmt.Sprintf("%s(fd %d)", k, e.Fd))
				if !retryable[k] {
					allRetryable = false
					if e.Op != "accept4" && e.Op != "epoll_wait" {
						victimFds[e.Fd] = true
					}
				}
			}
		}
		inj := strings.Join(injected, ",")
		site := "none"
		if len(injected) > 0 {
			site = injected[0][:strings.IndexByte(injected[0], '(')]
		}
		if !w.runDone || w.runErr != nil {
			return fmt.Sprintf("after injecting %s the engine did not keep running / shut down cleanly (Run done=%v err=%v, end=%s, blocked=%v)", inj, w.runDone, w.runErr, out.End, out.Blocked), "fault:engine-down:" + site
		}
		if !probeOK {
			return fmt.Sprintf("after injecting %s a fresh connection was not served any more", inj), "fault:probe:" + site
		}
		// classify connections: victim = the connection whose descriptor the fault hit
		for i, fp := range fps {
			var ci *connInfo
			// match the server-side connection by the bytes it consumed
			for _, c := range w.conns {
				if len(c.consumed) > 0 && c.consumed[0] == fp.msgs[0][0] {
					ci = c
				}
			}
			victim := false
			if ci != nil && victimFds[ci.fd] {
				victim = true
			}
			if ci == nil && len(victimFds) > 0 {
				victim = true // hit before any byte was consumed (registration / first read)
			}
			if !victim || allRetryable {
				if !fp.complete {
					return fmt.Sprintf("after injecting %s connection of peer %d (not the one the fault was injected on) did not complete its echo exchange: received %d bytes, err=%v eof=%v", inj, i, len(fp.p.got), fp.p.rerr, fp.p.eof), "fault:bystander:" + site
				}
				want := bytes.Join(fp.msgs, nil)
				if !bytes.Equal(fp.p.got, want) {
					return fmt.Sprintf("after injecting %s the echo stream of bystander peer %d is corrupted", inj, i), "fault:bystander-content:" + site
				}
				if ci != nil && (ci.closes != 1 || ci.closeErr == nil) {
					return fmt.Sprintf("after injecting %s bystander connection #%d: OnClose count %d, err %v (want one OnClose with the peer's EOF)", inj, ci.id, ci.closes, ci.closeErr), "fault:bystander-life:" + site
				}
				continue
			}
			// the victim: whatever it received must be a prefix of the expected echo
			want := bytes.Join(fp.msgs, nil)
			if !bytes.HasPrefix(want, fp.p.got) {
				return fmt.Sprintf("after injecting %s the victim's peer received bytes that are not a prefix of the echo", inj), "fault:victim-content:" + site
			}
			if ci != nil {
				if ci.opens == 1 && ci.closes != 1 {
					return fmt.Sprintf("after injecting %s victim connection #%d was opened but saw OnClose %d times", inj, ci.id, ci.closes), "fault:victim-life:" + site
				}
				if !fp.complete && ci.closes == 1 && ci.closeErr == nil {
					return fmt.Sprintf("after injecting %s victim connection #%d was closed by the failure but OnClose carried a nil error", inj, ci.id), "fault:victim-nilerr:" + site
				}
			}
		}
		for _, ci := range w.conns {
			if ci.closes > 1 || ci.opens > 1 || len(ci.afterClose) > 0 {
				return fmt.Sprintf("after injecting %s connection #%d lifecycle broken: opens=%d closes=%d after-close=%v", inj, ci.id, ci.opens, ci.closes, ci.afterClose), "fault:lifecycle:" + site
			}
		}
		if len(mcsys.L.Violations) > 0 {
			return "after injecting " + inj + ": " + mcsys.L.Violations[0], "fault:" + mcsys.L.Sigs[0]
		}
		if open := mcsys.OpenFrameworkFds(); len(open) > 0 {
			return fmt.Sprintf("after injecting %s descriptors are still open after Run returned: %v", inj, open), "fault:fdleak:" + site
		}
		return "", ""
	})
	return w
}

// startupFaultWorld: resource exhaustion while the engine starts (epoll_create1 / eventfd failing,
// the registration of the wake-up eventfd or of a listener failing). Run must report the failure
// (or succeed when nothing was injected), without panic, without closing descriptors it does
// not own and without leaving descriptors or the socket file behind.
func startupFaultWorld(loops int, reuseport bool, kind ...string) *world {
	w := newWorld("startup-fault")
	w.opts = []Option{WithNumEventLoop(loops)}
	if len(kind) > 0 {
		// the listener itself: socket(2), bind(2) and listen(2) of a TCP or UDP address can fail too
		// (EMFILE, EADDRINUSE); whatever was created before the failure has to be closed again
		a := &unix.SockaddrInet4{Addr: [4]byte{127, 0, 0, 1}}
		switch kind[0] {
		case "tcp":
			w.addr = fmt.Sprintf("tcp://127.0.0.1:%d", freeTCPPort(a, false))
			w.opts = append(w.opts, WithReuseAddr(true))
		case "udp":
			w.addr = fmt.Sprintf("udp://127.0.0.1:%d", udpPort()+9)
		}
	}
	w.deviate = func(site string, fd int, n int) []string {
		switch site {
		case "socket":
			return []string{"EMFILE"}
		case "bind", "listen":
			if len(kind) > 0 { // an address that is in use: TCP/UDP only (gnet unlinks a unix path before binding it)
				return []string{"EADDRINUSE"}
			}
		case "epoll_create1", "eventfd":
			return []string{"EMFILE"}
		case "epoll_ctl_add":
			if k := mcsys.KindOf(fd); k == "eventfd" || k == "socket" {
				return []string{"ENOMEM"}
			}
		}
		return nil
	}
	w.script = func(w *world) {
		sched.Go("ctl", func() {
			sched.BlockUntil(func() bool { return w.booted || w.runDone })
			if w.runDone {
				return
			}
			sched.WaitIdle()
			if !w.runDone {
				_ = w.eng.Stop(context.Background())
			}
		})
	}
	w.deadlockOK = true // a failed start leaves gnet's already started loop goroutines parked on closed pollers (a goroutine leak, outside the properties)
	w.checks = append(w.checks, checkEnd, func(w *world, out *sched.Outcome) (string, string) {
		injected := ""
		for _, e := range mcsys.L.Events {
			if e.Inject != "" {
				injected = e.Op + ":" + e.Inject
			}
		}
		if !w.runDone {
			return fmt.Sprintf("after injecting %s at start-up Run never returned (end=%s blocked=%v)", injected, out.End, out.Blocked), "startup:hang:" + injected
		}
		if injected != "" && w.runErr == nil && w.shutdowns == 0 {
			return fmt.Sprintf("%s was injected at start-up but Run returned nil without ever running", injected), "startup:swallowed:" + injected
		}
		if len(mcsys.L.Violations) > 0 {
			return "after injecting " + injected + " at start-up: " + mcsys.L.Violations[0], "startup:" + mcsys.L.Sigs[0]
		}
		if open := mcsys.OpenFrameworkFds(); len(open) > 0 {
			return fmt.Sprintf("after injecting %s at start-up Run returned %v but left descriptors open: %v", injected, w.runErr, open), "startup:fdleak:" + injected
		}
		if _, err := os.Stat(strings.TrimPrefix(w.addr, "unix://")); err == nil {
			return fmt.Sprintf("after injecting %s at start-up Run returned %v but the unix-socket file is still there", injected, w.runErr), "startup:sockfile:" + injected
		}
		return "", ""
	})
	return w
}

// reuseportAcceptWorld: TCP with SO_REUSEPORT, where every loop accepts inline (eventloop.accept):
// transient accept4 results (EAGAIN because another accepter won the race, EINTR, ECONNABORTED)
// must have no visible effect.
func reuseportAcceptWorld(et bool) *world {
	w := newWorld("fault-reuseport-accept")
	a := &unix.SockaddrInet4{Addr: [4]byte{127, 0, 0, 1}}
	w.addr = fmt.Sprintf("tcp://127.0.0.1:%d", freeTCPPort(a, false))
	w.opts = append(w.opts, WithReusePort(true), WithReuseAddr(true))
	if et {
		w.opts = append(w.opts, WithEdgeTriggeredIO(true))
	}
	active := true
	w.deviate = func(site string, fd int, n int) []string {
		if !active {
			return nil
		}
		if site == "accept4" {
			return []string{"EAGAIN", "EINTR", "ECONNABORTED"}
		}
		if site == "epoll_ctl_add" && isConnFd(fd) {
			// the registration of the connection just accepted by this loop fails: that connection is
			// lost, the loop and the engine are not
			return []string{"ENOMEM"}
		}
		return nil
	}
	w.onTraffic = echoTraffic
	var fp, probe *faultPeer
	w.script = func(w *world) {
		sched.SetSettle(6)
		done := 0
		fp = &faultPeer{p: w.newPeer(), msgs: [][]byte{echoMsg(1, 0, 5), echoMsg(1, 1, 9)}}
		probe = &faultPeer{p: w.newPeer(), msgs: [][]byte{echoMsg(9, 0, 5)}}
		sched.Go("peer", func() {
			defer func() { done++ }()
			w.waitBoot()
			fp.run()
			sched.WaitIdle()
			active = false
			if !w.runDone {
				probe.run() // liveness: a fresh connection is still served
			}
		})
		w.ctl(&done, 1, nil)
	}
	w.checks = append(w.checks, checkEnd, func(w *world, out *sched.Outcome) (string, string) {
		inj := ""
		for _, e := range mcsys.L.Events {
			if e.Inject != "" {
				inj = e.Op + ":" + e.Inject
			}
		}
		if !w.runDone || w.runErr != nil {
			return fmt.Sprintf("after a transient %s the engine stopped serving (Run done=%v err=%v end=%s blocked=%v)", inj, w.runDone, w.runErr, out.End, out.Blocked), "fault:accept-not-transient:" + inj
		}
		if !probe.complete {
			return fmt.Sprintf("after injecting %s a fresh connection was not served any more (the engine went down with one connection's failure?): probe received %d bytes, eof=%v err=%v", inj, len(probe.p.got), probe.p.eof, probe.p.rerr), "fault:probe:" + inj
		}
		if inj == "epoll_ctl_add:ENOMEM" {
			return "", "" // the connection whose registration failed is the victim
		}
		if !fp.complete {
			return fmt.Sprintf("after a transient %s the pending connection was not served: peer received %d bytes (eof=%v err=%v)", inj, len(fp.p.got), fp.p.eof, fp.p.rerr), "fault:accept-not-transient:" + inj
		}
		return "", ""
	})
	return w
}

// backpressureWorld: a persistent, real EAGAIN instead of an injected one. The victim's peer never
// reads, the victim's handler buffers far more than the socket takes and the connection is then
// closed (Close action / Conn.Close / Engine-side close after an injected read error) while its
// socket is still full. Closing it must not stall the loop: a bystander connection on the same
// loop completes its echo exchange while the victim's peer is still holding its socket unread.
func backpressureWorld(et bool, how string) *world {
	w := newWorld("fault-backpressure/" + how)
	if et {
		w.opts = append(w.opts, WithEdgeTriggeredIO(true))
	}
	w.opts = append(w.opts, WithReadBufferCap(1024), WithWriteBufferCap(1024))
	victimSeen := false
	victimFd := -1
	if how == "read-error" {
		w.deviate = func(site string, fd int, n int) []string {
			if site == "read" && victimSeen && fd == victimFd {
				return []string{"ECONNRESET"}
			}
			return nil
		}
	}
	w.onTraffic = func(w *world, ci *connInfo) Action {
		b, _ := ci.c.Next(-1)
		ci.consumed = append(ci.consumed, b...)
		if len(b) > 0 && b[0] == 'V' {
			victimSeen = true
			victimFd = ci.fd
			_, _ = ci.c.Write(make([]byte, 512*1024)) // far more than the socket takes: stays buffered
			switch how {
			case "close-action":
				return Close
			case "conn-close":
				_ = ci.c.Close()
			}
			return None
		}
		_, _ = ci.c.Write(b)
		return None
	}
	var by *faultPeer
	w.script = func(w *world) {
		done := 0
		byDone := false
		w.peerThread("victim-peer", &done, func(p *peer) {
			if p.connect() {
				p.send([]byte("V"))
				if how == "read-error" {
					sched.BlockUntil(func() bool { return victimSeen })
					p.send([]byte("W")) // the next read(2) on the victim fails (injected), the engine closes it
				}
				// hold the socket, unread, until the bystander has been served
				sched.BlockUntil(func() bool { return byDone })
				p.close()
			}
		})
		by = &faultPeer{p: w.newPeer(), msgs: [][]byte{echoMsg(1, 0, 5), echoMsg(1, 1, 700)}}
		sched.Go("bystander-peer", func() {
			defer func() { done++; byDone = true }()
			w.waitBoot()
			sched.BlockUntil(func() bool { return victimSeen })
			by.run()
		})
		w.ctl(&done, 2, nil)
	}
	w.checks = append(w.checks, checkEnd, func(w *world, out *sched.Outcome) (string, string) {
		if !w.runDone || w.runErr != nil {
			return fmt.Sprintf("closing a connection whose socket is full brought the engine down (Run done=%v err=%v end=%s blocked=%v)", w.runDone, w.runErr, out.End, out.Blocked), "fault:backpressure-engine"
		}
		if !by.complete || !bytes.Equal(by.p.got, bytes.Join(by.msgs, nil)) {
			return fmt.Sprintf("while a connection with a full socket was being closed the bystander connection was not served: received %d bytes (eof=%v err=%v)", len(by.p.got), by.p.eof, by.p.rerr), "fault:backpressure-bystander"
		}
		for _, ci := range w.conns {
			if ci.opens != 1 || ci.closes != 1 || len(ci.afterClose) > 0 {
				return fmt.Sprintf("connection #%d lifecycle broken: opens=%d closes=%d after-close=%v", ci.id, ci.opens, ci.closes, ci.afterClose), "fault:lifecycle:backpressure"
			}
		}
		if len(mcsys.L.Violations) > 0 {
			return mcsys.L.Violations[0], "fault:" + mcsys.L.Sigs[0]
		}
		if open := mcsys.OpenFrameworkFds(); len(open) > 0 {
			return fmt.Sprintf("descriptors are still open after Run returned: %v", open), "fault:fdleak:backpressure"
		}
		return "", ""
	})
	return w
}

func faultSchedConfigs() ([]sched.Config, func(string) *sched.Config) {
	thorough := seqmc.Tier() == "thorough"
	bounds := []sched.Bound{{PB: 0, DB: 0}, {PB: 0, DB: 1}, {PB: 0, DB: 2}, {PB: 1, DB: 1}}
	if thorough {
		bounds = append(bounds, sched.Bound{PB: 2, DB: 1}, sched.Bound{PB: 1, DB: 2})
	}
	var out []sched.Config
	for _, mode := range []string{"LT", "ET"} {
		for _, big := range []bool{false, true} {
			mode, big := mode, big
			name := fmt.Sprintf("fault/%s/big=%v", mode, big)
			out = append(out, sched.Config{Property: "C18", Name: name, Bounds: bounds, Horizon: 40000, Deadline: seqmc.Deadline(), DelayBounded: true,
				New: func() sched.Scenario { w := faultWorld(mode, big); w.name = name; return w }})
		}
	}
	for _, et := range []bool{false, true} {
		et := et
		name := "fault-reuseport-accept/tcp/" + map[bool]string{false: "LT", true: "ET"}[et]
		out = append(out, sched.Config{Property: "C18", Name: name, Bounds: []sched.Bound{{PB: 0, DB: 0}, {PB: 0, DB: 1}, {PB: 0, DB: 2}}, Horizon: 40000, Deadline: seqmc.Deadline(), DelayBounded: true, TolerateNondeterminism: true,
			New: func() sched.Scenario { w := reuseportAcceptWorld(et); w.name = name; return w }})
	}
	for _, et := range []bool{false, true} {
		for _, how := range []string{"close-action", "conn-close", "read-error"} {
			et, how := et, how
			name := "fault-backpressure/" + how + "/" + map[bool]string{false: "LT", true: "ET"}[et]
			bb := []sched.Bound{{PB: 0, DB: 0}, {PB: 1, DB: 0}}
			if how == "read-error" {
				bb = []sched.Bound{{PB: 0, DB: 0}, {PB: 0, DB: 1}, {PB: 1, DB: 1}}
			}
			out = append(out, sched.Config{Property: "C18", Name: name, Bounds: bb, Horizon: 40000, Deadline: seqmc.Deadline(), DelayBounded: true,
				New: func() sched.Scenario { w := backpressureWorld(et, how); w.name = name; return w }})
		}
	}
	for _, et := range []bool{false, true} {
		et := et
		// a failing registration on the client side (Client.Enroll), see c19_mc_test.go
		name := "client-enroll-fault/" + map[bool]string{false: "LT", true: "ET"}[et]
		out = append(out, sched.Config{Property: "C18", Name: name, Bounds: []sched.Bound{{PB: 0, DB: 0}, {PB: 0, DB: 1}, {PB: 1, DB: 1}}, Horizon: 40000, Deadline: seqmc.Deadline(), DelayBounded: true,
			New: func() sched.Scenario { return clientEnrollFaultWorld(et) }})
	}
	for _, kind := range []string{"tcp", "udp"} {
		kind := kind
		name := "startup-fault/" + kind
		out = append(out, sched.Config{Property: "C18", Name: name, Bounds: []sched.Bound{{PB: 0, DB: 0}, {PB: 0, DB: 1}}, Horizon: 40000, Deadline: seqmc.Deadline(), DelayBounded: true,
			New: func() sched.Scenario { w := startupFaultWorld(1, false, kind); w.name = name; return w }})
	}
	for _, loops := range []int{1, 2} {
		loops := loops
		name := fmt.Sprintf("startup-fault/%d-loops", loops)
		out = append(out, sched.Config{Property: "C18", Name: name, Bounds: []sched.Bound{{PB: 0, DB: 0}, {PB: 0, DB: 1}, {PB: 1, DB: 1}}, Horizon: 40000, Deadline: seqmc.Deadline(), DelayBounded: true,
			New: func() sched.Scenario { w := startupFaultWorld(loops, false); w.name = name; return w }})
	}
	return out, func(name string) *sched.Config {
		for i := range out {
			if out[i].Name == name {
				return &out[i]
			}
		}
		return nil
	}
}

func TestMC_C18(t *testing.T) {
	cfgs, byName := faultSchedConfigs()
	runEngineCheck(t, "C18", cfgs, byName, "two echo connections + a liveness probe x {LT,ET} x {small, ring-crossing payloads}: every call index of read/write/writev/accept4/epoll_ctl add|mod|del/close/epoll_wait on the I/O path x every errno of the realistic set, injected one at a time, in pairs, and with one schedule deviation (quick); with two schedule deviations (thorough)")
}
