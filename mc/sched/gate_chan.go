//go:build !mcfutex

package sched

// gate: channel hand-off (fast; used by all non-race builds).
type gate struct{ c chan struct{} }

func newGate() gate  { return gate{make(chan struct{}, 1)} }
func (g gate) wake() { g.c <- struct{}{} }
func (g gate) wait() { <-g.c }
