// Package sched is engine E1 of /verif: a cooperative scheduler that serialises the goroutines
// of a closed system ("threads") and a deviation-bounded stateless depth-first search over its
// decisions (CHESS style): which enabled thread runs at each scheduling point (switching away
// from a thread that could continue costs one preemption) and which answer the environment gives
// at each Choose point (a non-default answer costs one deviation).
//
// It is mapped into gnet as github.com/panjf2000/gnet/v2/internal/verifmc/sched by the overlay;
// it must compile with go 1.20 language semantics.
package sched

import (
	"fmt"
	"os"
	"runtime"
	"runtime/debug"
	"strings"
	"sync/atomic"
	"time"
)

const (
	stRunnable = iota
	stBlocked
	stDone
)

// FairnessK: after this many consecutive points of one thread while another was enabled, the
// scheduler rotates to the next enabled thread free of charge (not a decision).
var FairnessK = 60

type thread struct {
	id       int
	name     string
	g        gate
	st       int
	blockGen uint64
	pred     func() bool
	consec   int
	exited   chan struct{}
	started  bool
	idleWait bool
	seen     []int64 // open-addressing set of objects touched since the thread last got the token
	nseen    int
}

// Decision is one recorded choice of an execution.
type Decision struct {
	Kind   byte   `json:"k"` // 'S' schedule, 'C' choose
	N      int    `json:"n"`
	Chosen int    `json:"c"`
	Free   bool   `json:"f,omitempty"` // alternatives cost nothing (the running thread could not continue)
	Label  string `json:"l,omitempty"`
}

// Step is one scheduling point of the trace.
type Step struct {
	T    int
	Kind string
	Obj  int64
}

// PrefixItem is one replayed choice with what the parent execution saw there.
type PrefixItem struct {
	C    int    `json:"c"`
	Kind byte   `json:"k"`
	N    int    `json:"n"`
	L    string `json:"l,omitempty"`
}

// Outcome of one execution.
type Outcome struct {
	End       string // "complete", "deadlock", "horizon", "abort", "panic"
	Decisions []Decision
	Trace     []Step
	Steps     int
	Blocked   []string // names of threads still blocked at a deadlock
	PanicMsg  string
	Threads   int
	Rotations int
}

type exec struct {
	threads   []*thread
	cur       *thread
	prefix    []PrefixItem
	decisions []Decision
	trace     []Step
	gen       uint64
	steps     int
	horizon   int
	poison    bool
	outcome   string
	panicMsg  string
	endCh     chan struct{}
	ended     bool
	idle      func() bool // called when no thread is enabled; returns true if it made progress (virtual time)
	settleMs  int         // real milliseconds to wait for the kernel to settle before "nobody is enabled" is believed (loopback TCP)
	settled   int
	rot       int
	keepTrace bool
}

var ex *exec

// Active reports whether a scheduler is attached (explored execution in progress).
//
//go:norace
func Active() bool { return ex != nil && !ex.poison }

// Attached reports whether an execution exists (also true while unwinding).
//
//go:norace
func Attached() bool { return ex != nil }

// SetIdleHook installs the function called when no thread is enabled (virtual clock).
//
//go:norace
func SetIdleHook(f func() bool) {
	if ex != nil {
		ex.idle = f
	}
}

// SetSettle makes the scheduler wait up to ms real milliseconds (re-evaluating enabledness every
// millisecond) before it believes that no thread is enabled. Needed only where the kernel
// delivers asynchronously (loopback TCP); unix sockets and epoll/eventfd are synchronous.
//
//go:norace
func SetSettle(ms int) {
	if ex != nil {
		ex.settleMs = ms
	}
}

// CurrentThread returns the id of the running thread (-1 if none).
//
//go:norace
func CurrentThread() int {
	if ex == nil || ex.cur == nil {
		return -1
	}
	return ex.cur.id
}

// CurrentName returns the name of the running thread.
//
//go:norace
func CurrentName() string {
	if ex == nil || ex.cur == nil {
		return ""
	}
	return ex.cur.name
}

// Steps returns the number of scheduling points taken so far in this execution.
//
//go:norace
func Steps() int {
	if ex == nil {
		return 0
	}
	return ex.steps
}

type divergence struct{ msg string }

//go:norace
func (e *exec) unwindIfPoisoned() {
	if e.poison {
		runtime.Goexit()
	}
}

//go:norace
func (e *exec) enabled(t *thread) bool {
	switch t.st {
	case stRunnable:
		return true
	case stBlocked:
		if t.idleWait {
			return e.quiescentFor(t)
		}
		if t.pred != nil {
			return t.pred()
		}
		return e.gen > t.blockGen
	}
	return false
}

// enabledOthers lists enabled threads other than t in ascending id order starting after t
// (cyclic), so that free rotations are round-robin.
//
//go:norace
func (e *exec) enabledOthers(t *thread) []*thread {
	var out []*thread
	n := len(e.threads)
	for k := 1; k < n; k++ {
		o := e.threads[(t.id+k)%n]
		if o != t && e.enabled(o) {
			out = append(out, o)
		}
	}
	// canonical order for decisions: ascending id
	for i := 1; i < len(out); i++ {
		for j := i; j > 0 && out[j-1].id > out[j].id; j-- {
			out[j-1], out[j] = out[j], out[j-1]
		}
	}
	return out
}

//go:norace
func (e *exec) decide(kind byte, n int, free bool, label string) int {
	idx := len(e.decisions)
	c := 0
	if idx < len(e.prefix) {
		p := e.prefix[idx]
		if p.Kind != kind || p.N != n || p.C >= n || p.L != label {
			panic(divergence{fmt.Sprintf("replay divergence at decision %d: recorded kind=%c n=%d label=%q choice=%d, now kind=%c n=%d label=%q",
				idx, p.Kind, p.N, p.L, p.C, kind, n, label)})
		}
		c = p.C
	}
	e.decisions = append(e.decisions, Decision{Kind: kind, N: n, Chosen: c, Free: free, Label: label})
	return c
}

// switchTo hands the token from the current thread to next and parks the current thread.
//
//go:norace
func (e *exec) switchTo(next *thread) {
	t := e.cur
	next.st = stRunnable
	next.pred = nil
	next.idleWait = false
	next.seen, next.nseen = nil, 0
	e.cur = next
	next.g.wake()
	t.g.wait()
	e.unwindIfPoisoned()
}

// finish ends the execution from the running thread.
//
//go:norace
func (e *exec) finish(outcome string) {
	if !e.ended {
		e.ended = true
		e.outcome = outcome
		e.poison = true
		close(e.endCh)
	}
	runtime.Goexit()
}

// Point is a scheduling point: called by hooked operations BEFORE they take effect.
//
//go:norace
func Point(kind string, obj int64) {
	e := ex
	if e == nil {
		return
	}
	e.unwindIfPoisoned()
	t := e.cur
	e.steps++
	atomic.AddInt64(&progress, 1)
	if e.steps > e.horizon {
		e.finish("horizon")
	}
	e.gen++
	if e.keepTrace {
		e.trace = append(e.trace, Step{t.id, kind, obj})
	}
	others := e.enabledOthers(t)
	if len(others) == 0 {
		t.consec = 0
		return
	}
	// starvation bound with a progress test: a thread that keeps touching objects it has not touched
	// before (draining a queue node by node) is working, not spinning, and may keep the token; K
	// consecutive points on already-seen objects while another thread is enabled are a spin
	if t.novel(obj) {
		t.consec = 0
	}
	t.consec++
	if t.consec > FairnessK {
		// rotate to the next enabled thread (cyclic order after t), free of charge
		t.consec = 0
		e.rot++
		var next *thread
		n := len(e.threads)
		for k := 1; k < n && next == nil; k++ {
			o := e.threads[(t.id+k)%n]
			for _, c := range others {
				if c == o {
					next = o
				}
			}
		}
		e.switchTo(next)
		return
	}
	c := e.decide('S', 1+len(others), false, "")
	if c == 0 {
		return
	}
	t.consec = 0
	e.switchTo(others[c-1])
}

// novel records obj in the thread's set of touched objects and reports whether it was new.
//
//go:norace
func (t *thread) novel(obj int64) bool {
	if obj == 0 {
		return false
	}
	if t.seen == nil {
		t.seen = make([]int64, 1024)
	}
	if t.nseen*2 >= len(t.seen) {
		// grow and rehash
		old := t.seen
		t.seen = make([]int64, len(old)*2)
		t.nseen = 0
		for _, o := range old {
			if o != 0 {
				t.novel(o)
			}
		}
	}
	mask := len(t.seen) - 1
	i := int((uint64(obj)*0x9E3779B97F4A7C15)>>40) & mask
	for t.seen[i] != 0 {
		if t.seen[i] == obj {
			return false
		}
		i = (i + 1) & mask
	}
	t.seen[i] = obj
	t.nseen++
	return true
}

// yield passes the token on from a thread that cannot continue (blocked or exiting).
//
//go:norace
func (e *exec) yield(t *thread, exiting bool) {
	for {
		atomic.AddInt64(&progress, 1)
		others := e.enabledOthers(t)
		if len(others) == 0 && e.settled < e.settleMs && !(!exiting && e.enabled(t)) {
			e.settled++
			time.Sleep(time.Millisecond)
			continue
		}
		e.settled = 0
		if len(others) == 0 {
			if e.idle != nil && e.idle() {
				e.gen++
				if !exiting && e.enabled(t) {
					t.st = stRunnable
					t.pred = nil
					return
				}
				continue
			}
			alldone := true
			for _, o := range e.threads {
				if o.st != stDone {
					alldone = false
				}
			}
			if alldone {
				e.finish("complete")
			}
			e.finish("deadlock")
		}
		c := 0
		if len(others) > 1 {
			c = e.decide('S', len(others), true, "")
		}
		next := others[c]
		if exiting {
			next.st = stRunnable
			next.pred = nil
			e.cur = next
			next.g.wake()
			return
		}
		e.switchTo(next)
		return
	}
}

// Block parks the calling thread until some other thread has taken a step.
//
//go:norace
func Block() {
	e := ex
	if e == nil {
		runtime.Gosched()
		return
	}
	e.unwindIfPoisoned()
	t := e.cur
	t.st = stBlocked
	t.blockGen = e.gen
	t.pred = nil
	t.consec = 0
	e.yield(t, false)
}

// BlockUntil parks the calling thread until pred() holds; pred must be free of side effects.
//
//go:norace
func BlockUntil(pred func() bool) {
	e := ex
	if e == nil {
		for !pred() {
			runtime.Gosched()
		}
		return
	}
	e.unwindIfPoisoned()
	if pred() {
		return
	}
	t := e.cur
	t.st = stBlocked
	t.pred = pred
	t.consec = 0
	e.yield(t, false)
}

// WaitIdle parks the calling (harness) thread until no other thread is enabled: this is how a
// scenario says "now look at the quiescent state, then continue with the next action".
//
//go:norace
func WaitIdle() {
	e := ex
	if e == nil {
		return
	}
	e.unwindIfPoisoned()
	t := e.cur
	if e.quiescentFor(t) {
		return
	}
	t.st = stBlocked
	t.idleWait = true
	t.pred = nil
	t.consec = 0
	e.yield(t, false)
	t.idleWait = false
}

// quiescentFor reports whether no thread other than t (and other idle-waiters) is enabled.
//
//go:norace
func (e *exec) quiescentFor(t *thread) bool {
	for _, o := range e.threads {
		if o == t || o.idleWait {
			continue
		}
		if e.enabled(o) {
			return false
		}
	}
	return true
}

// Choose is the single entry for data nondeterminism: it returns a value in [0,n); 0 is the
// default answer, any other answer costs one deviation.
//
//go:norace
func Choose(n int, label string) int {
	e := ex
	if e == nil || n <= 1 {
		return 0
	}
	e.unwindIfPoisoned()
	return e.decide('C', n, false, label)
}

// Abort ends the execution at once (used by oracles that have seen enough).
//
//go:norace
func Abort() {
	e := ex
	if e == nil {
		return
	}
	e.finish("abort")
}

// Go spawns a new thread of the closed system.
//
//go:norace
func Go(name string, f func()) {
	e := ex
	if e == nil {
		go f()
		return
	}
	e.unwindIfPoisoned()
	t := &thread{id: len(e.threads), name: name, g: newGate(), st: stRunnable, exited: make(chan struct{})}
	e.threads = append(e.threads, t)
	go e.threadMain(t, f)
	Point("spawn", int64(t.id))
}

//go:norace
func (e *exec) threadMain(t *thread, f func()) {
	defer close(t.exited)
	t.g.wait()
	t.started = true
	if e.poison {
		return
	}
	defer e.threadEnd(t)
	f()
}

// threadEnd is the deferred tail of every thread (a named method, not a closure: closures do
// not inherit //go:norace).
//
//go:norace
func (e *exec) threadEnd(t *thread) {
	if r := recover(); r != nil {
		e.handlePanic(t, r)
		return
	}
	if e.poison {
		return
	}
	e.exitThread(t)
}

// exitThread is the normal exit of a thread; a replay divergence may be detected while the
// token is passed on, hence the second recover.
//
//go:norace
func (e *exec) exitThread(t *thread) {
	defer e.lastResort(t)
	t.st = stDone
	e.gen++
	e.yield(t, true)
}

//go:norace
func (e *exec) lastResort(t *thread) {
	if r := recover(); r != nil {
		e.handlePanic(t, r)
	}
}

//go:norace
func (e *exec) handlePanic(t *thread, r interface{}) {
	if d, ok := r.(divergence); ok {
		e.panicMsg = "DIVERGENCE: " + d.msg
	} else {
		e.panicMsg = fmt.Sprintf("panic in thread %s: %v\n%s", t.name, r, trimStack(string(debug.Stack())))
	}
	if !e.ended {
		e.ended = true
		e.outcome = "panic"
		e.poison = true
		close(e.endCh)
	}
}

//go:norace
func trimStack(s string) string {
	lines := strings.Split(s, "\n")
	var keep []string
	for i, l := range lines {
		if strings.Contains(l, "gnet/v2") && !strings.HasPrefix(l, "\t") {
			f := strings.TrimSpace(l)
			// the next line of a stack dump is "\t/path/file.go:line +0x.."
			if i+1 < len(lines) && strings.HasPrefix(lines[i+1], "\t") {
				loc := strings.TrimSpace(lines[i+1])
				if k := strings.LastIndexByte(loc, '/'); k >= 0 {
					loc = loc[k+1:]
				}
				if k := strings.IndexByte(loc, ' '); k >= 0 {
					loc = loc[:k]
				}
				f += " @" + loc
			}
			keep = append(keep, f)
		}
		if len(keep) >= 14 {
			break
		}
	}
	return strings.Join(keep, "\n")
}

// progress counts scheduling activity (points, blocking, hand-offs) of the whole process; the
// watchdog reads it. CurrentScenario is set by the explorer for the watchdog's report.
var (
	progress        int64
	CurrentScenario string
)

// watchdog: a thread that holds the token and neither reaches a scheduling point nor ends (an
// endless loop without a system call or an atomic operation in it, or a real blocking call the
// shims do not own) cannot be pre-empted or unwound. After MC_STUCK_S seconds (default 90) without
// any scheduling activity the process reports the scenario and the decisions taken so far on
// stdout and exits with status 3; the orchestrator re-runs the scenario to tell a reproducible
// hang (a violation: "the execution never ends") from a machine hiccup.
func watchdog(e *exec, stop chan struct{}) {
	limit := EnvInt("MC_STUCK_S", 90)
	last, idle := int64(-1), 0
	for {
		select {
		case <-stop:
			return
		case <-time.After(time.Second):
		}
		cur := atomic.LoadInt64(&progress)
		if cur != last {
			last, idle = cur, 0
			continue
		}
		idle++
		if idle < limit {
			continue
		}
		var nz []string
		for i, d := range e.decisions {
			if d.Chosen != 0 {
				nz = append(nz, fmt.Sprintf("%d:%d/%d", i, d.Chosen, d.N))
			}
		}
		name := "?"
		if e.cur != nil {
			name = e.cur.name
		}
		buf := make([]byte, 1<<16)
		buf = buf[:runtime.Stack(buf, true)]
		fmt.Printf("\nMC-STUCK scenario=%q thread=%s steps=%d decisions=%d nondefault=[%s]\n%s\nMC-STUCK-END\n", CurrentScenario, name, e.steps, len(e.decisions), strings.Join(nz, " "), trimStack(string(buf)))
		os.Exit(3)
	}
}

// RunOnce executes body as thread 0 under the scheduler, replaying prefix and taking choice 0 at
// every later decision. It returns when every thread has finished or been unwound.
//
//go:norace
func RunOnce(prefix []PrefixItem, horizon int, keepTrace bool, body func()) *Outcome {
	if ex != nil {
		panic("sched: nested execution")
	}
	if horizon <= 0 {
		horizon = 20000
	}
	e := &exec{prefix: prefix, horizon: horizon, endCh: make(chan struct{}), keepTrace: keepTrace}
	t0 := &thread{id: 0, name: "main", g: newGate(), st: stRunnable, exited: make(chan struct{})}
	e.threads = []*thread{t0}
	e.cur = t0
	ex = e
	stopWatch := make(chan struct{})
	go watchdog(e, stopWatch)
	defer close(stopWatch)
	go e.threadMain(t0, body)
	t0.g.wake()
	<-e.endCh
	// unwind: the thread that ended the execution is unwinding already; release the others one at
	// a time so that deferred code never runs concurrently.
	for i := 0; i < len(e.threads); i++ {
		t := e.threads[i]
		if t == e.cur {
			<-t.exited
		}
	}
	for i := 0; i < len(e.threads); i++ {
		t := e.threads[i]
		select {
		case <-t.exited:
			continue
		default:
		}
		t.g.wake()
		<-t.exited
	}
	out := &Outcome{End: e.outcome, Decisions: e.decisions, Trace: e.trace, Steps: e.steps, PanicMsg: e.panicMsg, Threads: len(e.threads), Rotations: e.rot}
	if e.outcome == "deadlock" {
		for _, t := range e.threads {
			if t.st == stBlocked {
				out.Blocked = append(out.Blocked, t.name)
			}
		}
	}
	ex = nil
	if strings.HasPrefix(e.panicMsg, "DIVERGENCE") {
		// the environment answered differently than in the parent execution (a source of
		// nondeterminism the harness does not own, e.g. Go map iteration order): never a verdict
		out.End = "divergence"
	}
	return out
}
