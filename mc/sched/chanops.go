package sched

import "reflect"

// RecvDiscard is the scheduler-visible form of the statement `<-ch`: try without blocking; if
// nothing is ready, park until some other thread has taken a step and retry. The receive itself
// is the real channel operation (its happens-before meaning is preserved).
//
//go:norace
func RecvDiscard(ch interface{}) {
	v := reflect.ValueOf(ch)
	if ex == nil {
		v.Recv()
		return
	}
	for {
		if _, ok := v.TryRecv(); ok {
			return
		}
		// TryRecv reports ok=false both for "would block" and for "closed"; distinguish them
		if isClosedAndEmpty(v) {
			return
		}
		Block()
	}
}

//go:norace
func isClosedAndEmpty(v reflect.Value) bool {
	// A select with a default case tells a closed channel (receive succeeds with the zero value,
	// recvOK=false) from an empty open one (default chosen).
	chosen, _, recvOK := reflect.Select([]reflect.SelectCase{
		{Dir: reflect.SelectRecv, Chan: v},
		{Dir: reflect.SelectDefault},
	})
	return chosen == 0 && !recvOK
}

// SendAny is the scheduler-visible form of the statement `ch <- val`.
//
//go:norace
func SendAny(ch interface{}, val interface{}) {
	c := reflect.ValueOf(ch)
	x := reflect.ValueOf(val)
	if !x.IsValid() {
		x = reflect.Zero(c.Type().Elem())
	} else if x.Type() != c.Type().Elem() {
		if x.Type().ConvertibleTo(c.Type().Elem()) && c.Type().Elem().Kind() != reflect.Interface {
			x = x.Convert(c.Type().Elem())
		}
	}
	if ex == nil {
		c.Send(x)
		return
	}
	for {
		if c.TrySend(x) {
			return
		}
		Block()
	}
}
