//go:build mcfutex

package sched

import (
	"unsafe"

	"golang.org/x/sys/unix"
)

// gate: raw futex hand-off on a plain word, inside //go:norace functions. These hand-offs are
// invisible to Go's race detector, so under -race the detector judges each explored schedule by
// the program's OWN happens-before relation only (a channel hand-off would be a happens-before
// edge between every pair of consecutive steps and blind it).
type gate struct{ w *uint32 }

const (
	futexWait = 0 | 128 // FUTEX_WAIT | FUTEX_PRIVATE_FLAG
	futexWake = 1 | 128
)

//go:norace
func newGate() gate { return gate{new(uint32)} }

//go:norace
func (g gate) wake() {
	*g.w = 1
	_, _, _ = unix.Syscall6(unix.SYS_FUTEX, uintptr(unsafe.Pointer(g.w)), futexWake, 1, 0, 0, 0)
}

//go:norace
func (g gate) wait() {
	for *g.w == 0 {
		_, _, _ = unix.Syscall6(unix.SYS_FUTEX, uintptr(unsafe.Pointer(g.w)), futexWait, 0, 0, 0, 0)
	}
	*g.w = 0
}
