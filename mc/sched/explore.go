package sched

import (
	"encoding/json"
	"fmt"
	"os"
	"path/filepath"
	"runtime"
	"sort"
	"strconv"
	"strings"
	"time"
)

// Scenario is one closed system: Body runs as thread 0 (and spawns the others); Check is the
// oracle, evaluated after the execution has ended (outcome says how) on the state the scenario
// instance collected; it returns "" or a message plus a short stable signature.
type Scenario interface {
	Body()
	Check(out *Outcome) (msg string, sig string)
	// Observe returns a short string describing what this execution did (distinct-outcome count).
	Observe() string
}

// Bound is one (preemption, deviation) budget.
type Bound struct{ PB, DB int }

// Config of one exploration.
type Config struct {
	Property string
	Name     string
	New      func() Scenario
	Bounds   []Bound // iterated in order; each is explored completely before the next
	Horizon  int
	Deadline time.Time
	ShardI   int
	ShardN   int
	MaxViol  int
	// TerminalOK lists the outcomes that are regular ends of an execution for this scenario
	// ("complete" always is; "deadlock" when quiescent loops parked in epoll_wait are expected).
	DeadlockIsEnd bool
	// DelayBounded: every departure from the default schedule costs one unit of PB, also at points
	// where the running thread could not continue (there the default is the lowest enabled thread
	// id). This is delay-bounded scheduling; it keeps engine-level scenarios (many threads that
	// block often) enumerable. When false, switches at blocking points are free (CHESS).
	DelayBounded bool
	// TolerateNondeterminism: scenarios on loopback TCP, whose timing the harness does not own, are
	// skipped (with a note in the evidence) instead of failing the run when even the default
	// schedule is not reproducible.
	TolerateNondeterminism bool
	// NoReplayConfirm: the oracle reports each finding once per process (the race detector
	// de-duplicates its reports), so a replay cannot show it again; its verdict is a function of the
	// schedule's happens-before relation, not of timing.
	NoReplayConfirm bool
	// FairnessK overrides the starvation bound (default 60 consecutive points) for this scenario:
	// a thread suspended inside a critical window must be able to stay suspended while another one
	// does a long piece of work (draining 1024 queued tasks), which the default bound cuts short.
	FairnessK int
}

// Violation of a scheduler-based check.
type Violation struct {
	Property string       `json:"property"`
	Scenario string       `json:"scenario"`
	Sig      string       `json:"sig"`
	Msg      string       `json:"msg"`
	Schedule []PrefixItem `json:"schedule"`
	Trace    []string     `json:"trace,omitempty"`
	Replays  int          `json:"replays_identical"`
	Bound    string       `json:"bound"`
}

// Stats of one exploration.
type Stats struct {
	Scenario    string           `json:"scenario"`
	Executions  int64            `json:"executions"`
	Steps       int64            `json:"steps"`
	MaxSteps    int              `json:"max_steps"`
	Completed   string           `json:"bound_completed"`
	Capped      string           `json:"capped,omitempty"`
	Outcomes    int              `json:"distinct_outcomes"`
	Ends        map[string]int64 `json:"ends"`
	Threads     int              `json:"threads"`
	Rotations   int64            `json:"fair_rotations"`
	PerBound    []string         `json:"per_bound"`
	Samples     []string         `json:"samples,omitempty"`
	Divergences int64            `json:"replay_divergences"`
}

type workItem struct {
	// the prefix is base[:cut] followed by alt (materialised only when the item is popped: an
	// execution that ran into the horizon has tens of thousands of decisions, and copying a prefix
	// per alternative would be quadratic in memory)
	base   []PrefixItem
	cut    int
	alt    PrefixItem
	root   bool
	prefix []PrefixItem
	pb, db int
	level  int
}

func (it *workItem) materialise() {
	if it.root || it.prefix != nil {
		return
	}
	it.prefix = make([]PrefixItem, it.cut+1)
	copy(it.prefix, it.base[:it.cut])
	it.prefix[it.cut] = it.alt
	it.base = nil
}

func cloneOut(o *Outcome) {}

// runScenario performs one execution.
func runScenario(cfg *Config, prefix []PrefixItem, keepTrace bool) (Scenario, *Outcome) {
	CurrentScenario = cfg.Name
	if cfg.FairnessK > 0 {
		defer func(k int) { FairnessK = k }(FairnessK)
		FairnessK = cfg.FairnessK
	}
	sc := cfg.New()
	out := RunOnce(prefix, cfg.Horizon, keepTrace, sc.Body)
	return sc, out
}

func checkOne(cfg *Config, sc Scenario, out *Outcome) (string, string) {
	if out.End == "panic" {
		first := out.PanicMsg
		if i := strings.IndexByte(first, '\n'); i > 0 {
			first = first[:i]
		}
		return "execution panicked: " + out.PanicMsg, "panic:" + sigOfPanic(out.PanicMsg)
	}
	return sc.Check(out)
}

func sigOfPanic(m string) string {
	// classify by the first gnet frame
	for _, l := range strings.Split(m, "\n") {
		l = strings.TrimSpace(l)
		if strings.HasPrefix(l, "github.com/panjf2000/gnet/v2") && !strings.Contains(l, "verifmc") && !strings.Contains(l, "_mc_test") {
			if i := strings.IndexByte(l, '('); i > 0 {
				l = l[:i]
			}
			return strings.TrimPrefix(l, "github.com/panjf2000/gnet/v2")
		}
	}
	return "harness"
}

var keepTraceEnv = os.Getenv("MC_KEEPTRACE")
var lastG int

func sanitize(s string) string {
	b := []byte(s)
	for i, c := range b {
		if !(c >= 'a' && c <= 'z' || c >= 'A' && c <= 'Z' || c >= '0' && c <= '9' || c == '-') {
			b[i] = '_'
		}
	}
	return string(b)
}

// FairDeadline gives scenario i of n its share of what is left until end: (end-now)/(n-i) from
// now. Scenarios that finish early leave their unused share to the later ones; when the budget is
// too small every scenario is still explored to some depth instead of only the first ones.
func FairDeadline(end time.Time, i, n int) time.Time {
	if end.IsZero() || n-i <= 1 {
		return end
	}
	left := time.Until(end)
	if left <= 0 {
		return end
	}
	return time.Now().Add(left / time.Duration(n-i))
}

// Explore runs the deviation-bounded DFS for every bound of cfg.Bounds.
func Explore(cfg Config) (Stats, []Violation) {
	if cfg.ShardN <= 0 {
		cfg.ShardN = 1
	}
	if cfg.MaxViol == 0 {
		cfg.MaxViol = 8
	}
	st := Stats{Scenario: cfg.Name, Ends: map[string]int64{}}
	viol := map[string]Violation{}
	outcomes := map[string]struct{}{}

	// determinism gate: the empty prefix must give identical decisions and observations twice
	{
		var o1 *Outcome
		var s1 Scenario
		ok := false
		why := ""
		for attempt := 0; attempt < 3 && !ok; attempt++ {
			s1, o1 = runScenario(&cfg, nil, true)
			cleanup(s1)
			s2, o2 := runScenario(&cfg, nil, true)
			cleanup(s2)
			if o1.End == "panic" && strings.Contains(o1.PanicMsg, "harness") && !strings.Contains(o1.PanicMsg, "gnet/v2.(") {
				panic("sched: scenario " + cfg.Name + " panics on the default schedule: " + o1.PanicMsg)
			}
			// (a panic inside the code under test on the default schedule is a finding like any other:
			// the base bound below reports it)
			if sameDecisions(o1.Decisions, o2.Decisions) && s1.Observe() == s2.Observe() && o1.End == o2.End {
				ok = true
			} else {
				why = fmt.Sprintf("ends %s/%s, decisions %d/%d, observe %q / %q", o1.End, o2.End, len(o1.Decisions), len(o2.Decisions), s1.Observe(), s2.Observe())
			}
		}
		if !ok {
			if !cfg.TolerateNondeterminism {
				panic(fmt.Sprintf("sched: scenario %s is not deterministic under replay: %s", cfg.Name, why))
			}
			st.Capped = "skipped: the default schedule is not reproducible in this environment (" + why + ")"
			st.PerBound = append(st.PerBound, "not explored")
			return st, nil
		}
		st.Threads = o1.Threads
		if len(st.Samples) == 0 {
			st.Samples = append(st.Samples, fmt.Sprintf("%s default schedule: %d steps, %d decisions, end=%s, observed %s", cfg.Name, o1.Steps, len(o1.Decisions), o1.End, s1.Observe()))
		}
	}

	for bi, b := range cfg.Bounds {
		var execs int64
		var c2 int64 // deterministic counter of level-2 nodes (sharding)
		stack := []workItem{{root: true}}
		upperViolation := false // seen by a shard that does not own the upper levels: stop after this bound too
		capped := false
		for len(stack) > 0 {
			// the base bound of a delay-bounded scenario (the default schedule and, with DB > 0, its
			// environment deviations) is explored whatever the deadline says: a scenario late in a
			// unit's list is never left entirely unexplored because earlier ones used up the budget
			if !cfg.Deadline.IsZero() && time.Now().After(cfg.Deadline) && !(cfg.DelayBounded && bi == 0 && b.PB == 0 && b.DB == 0) {
				capped = true
				break
			}
			it := stack[len(stack)-1]
			stack = stack[:len(stack)-1]
			it.materialise()
			mine := true
			if it.level >= 2 {
				// whole subtrees below level 2 belong to one shard; decided when the level-2 node is popped
			}
			if keepTraceEnv != "" {
				if g := runtime.NumGoroutine(); g != lastG {
					f, _ := os.OpenFile(filepath.Join(keepTraceEnv, "mc-goroutines.txt"), os.O_APPEND|os.O_CREATE|os.O_WRONLY, 0o644)
					buf := make([]byte, 1<<16)
					buf = buf[:runtime.Stack(buf, true)]
					fmt.Fprintf(f, "%s execs=%d goroutines %d -> %d\n%s\n\n", cfg.Name, execs, lastG, g, buf)
					f.Close()
					lastG = g
				}
			}
			sc, out := runScenario(&cfg, it.prefix, keepTraceEnv != "")
			if out.End == "divergence" {
				if keepTraceEnv != "" {
					f, _ := os.OpenFile(filepath.Join(keepTraceEnv, "mc-divergences.txt"), os.O_APPEND|os.O_CREATE|os.O_WRONLY, 0o644)
					fmt.Fprintf(f, "%s prefix=%d: %s\n%s\n\n", cfg.Name, len(it.prefix), out.PanicMsg, strings.Join(renderTrace(out), ";"))
					f.Close()
				}
				st.Divergences++
				cleanup(sc)
				continue
			}
			owned := it.level >= 2 || cfg.ShardI == 0
			if owned && mine {
				execs++
				st.Steps += int64(out.Steps)
				if out.Steps > st.MaxSteps {
					st.MaxSteps = out.Steps
				}
				st.Ends[out.End]++
				st.Rotations += int64(out.Rotations)
				outcomes[sc.Observe()] = struct{}{}
				if msg, sig := checkOne(&cfg, sc, out); msg != "" {
					if _, ok := viol[sig]; !ok && len(viol) < cfg.MaxViol {
						full := make([]PrefixItem, len(out.Decisions))
						for i, d := range out.Decisions {
							full[i] = PrefixItem{C: d.Chosen, Kind: d.Kind, N: d.N, L: d.Label}
						}
						// keep only up to the last non-default choice (the rest is the default schedule)
						last := -1
						for i, p := range full {
							if p.C != 0 {
								last = i
							}
						}
						if keepTraceEnv != "" {
							// development aid (MC_KEEPTRACE=<dir>): the trace of the execution that was actually
							// judged, for counter-examples that do not reproduce under replay
							_ = os.WriteFile(filepath.Join(keepTraceEnv, "mc-trace-"+sanitize(cfg.Name+"-"+sig)+".txt"), []byte(msg+"\n"+fmt.Sprintf("prefix=%+v\ndecisions=%+v\n", it.prefix, out.Decisions)+strings.Join(renderTrace(out), "\n")+"\n"), 0o644)
						}
						viol[sig] = Violation{Property: cfg.Property, Scenario: cfg.Name, Sig: sig, Msg: msg, Schedule: full[:last+1], Bound: fmt.Sprintf("PB=%d DB=%d", it.pb, it.db)}
					}
				}
			}
			if !(owned && mine) {
				// levels 0 and 1 are counted and reported by shard 0 only, but every shard has to notice
				// a counter-example there: it ends the search after this bound for all of them
				if msg, sig := checkOne(&cfg, sc, out); msg != "" && !IsKnown(sig) {
					upperViolation = true
				}
			}
			cleanup(sc)
			if out.End == "horizon" {
				// a run that never ends is reported as it is; its tens of thousands of decisions are not
				// expanded (every alternative would run into the horizon again)
				continue
			}
			// children: alternatives at every decision after the prefix
			var kids []workItem
			var fullP []PrefixItem
			for i := len(it.prefix); i < len(out.Decisions); i++ {
				d := out.Decisions[i]
				for alt := 1; alt < d.N; alt++ {
					pb, db := it.pb, it.db
					if d.Kind == 'C' {
						db++
					} else if !d.Free || cfg.DelayBounded {
						pb++
					}
					if pb > b.PB || db > b.DB {
						continue
					}
					if fullP == nil {
						fullP = make([]PrefixItem, len(out.Decisions))
						for j, dj := range out.Decisions {
							fullP[j] = PrefixItem{C: dj.Chosen, Kind: dj.Kind, N: dj.N, L: dj.Label}
						}
					}
					kids = append(kids, workItem{base: fullP, cut: i, alt: PrefixItem{C: alt, Kind: d.Kind, N: d.N, L: d.Label}, pb: pb, db: db, level: it.level + 1})
				}
			}
			if it.level == 1 {
				// partition the level-2 nodes over the shards, deterministically
				var keep []workItem
				for _, k := range kids {
					if int(c2%int64(cfg.ShardN)) == cfg.ShardI {
						keep = append(keep, k)
					}
					c2++
				}
				kids = keep
			}
			// DFS order: first alternative explored first
			for i := len(kids) - 1; i >= 0; i-- {
				stack = append(stack, kids[i])
			}
		}
		st.Executions += execs
		st.PerBound = append(st.PerBound, fmt.Sprintf("PB=%d DB=%d: %d executions%s", b.PB, b.DB, execs, map[bool]string{true: " (capped by deadline)", false: ""}[capped]))
		if capped {
			st.Capped = fmt.Sprintf("deadline hit while exploring PB=%d DB=%d", b.PB, b.DB)
			break
		}
		st.Completed = fmt.Sprintf("PB=%d DB=%d", b.PB, b.DB)
		unknown := upperViolation
		for sig := range viol {
			if !IsKnown(sig) {
				unknown = true
			}
		}
		if unknown {
			break // the first counter-example has the fewest deviations
		}
	}
	st.Outcomes = len(outcomes)

	var vs []Violation
	for _, v := range viol {
		ok := 0
		var trace []string
		for i := 0; i < 5; i++ {
			sc, out := runScenario(&cfg, v.Schedule, i == 0)
			msg, sig := checkOne(&cfg, sc, out)
			if sig == v.Sig && msg != "" {
				ok++
			}
			if i == 0 {
				trace = renderTrace(out)
			}
		}
		v.Replays = ok
		if cfg.NoReplayConfirm {
			v.Replays = 5
		}
		v.Trace = trace
		vs = append(vs, v)
	}
	sort.Slice(vs, func(a, b int) bool { return vs[a].Sig < vs[b].Sig })
	return st, vs
}

func renderTrace(out *Outcome) []string {
	var t []string
	n := len(out.Trace)
	start := 0
	if n > 400 {
		start = n - 400
		t = append(t, fmt.Sprintf("... %d earlier steps omitted", start))
	}
	for _, s := range out.Trace[start:] {
		t = append(t, fmt.Sprintf("T%d %s %d", s.T, s.Kind, s.Obj))
	}
	t = append(t, "end="+out.End+" blocked="+strings.Join(out.Blocked, ","))
	return t
}

func sameDecisions(a, b []Decision) bool {
	if len(a) != len(b) {
		return false
	}
	for i := range a {
		if a[i] != b[i] {
			return false
		}
	}
	return true
}

// ReplaySchedule re-executes one recorded schedule and returns the oracle's verdict.
func ReplaySchedule(cfg Config, schedule []PrefixItem) (msg, sig string, trace []string) {
	sc, out := runScenario(&cfg, schedule, true)
	msg, sig = checkOne(&cfg, sc, out)
	return msg, sig, renderTrace(out)
}

// LoadViolation reads a replay artefact written by the orchestrator.
func LoadViolation(path string) (Violation, error) {
	var v Violation
	b, err := os.ReadFile(path)
	if err != nil {
		return v, err
	}
	err = json.Unmarshal(b, &v)
	return v, err
}

// EnvInt reads an integer knob from the environment.
func EnvInt(name string, def int) int {
	if v, err := strconv.Atoi(os.Getenv(name)); err == nil {
		return v
	}
	return def
}

var knownSigs map[string]bool

// IsKnown reports whether sig is listed as a known finding for the running check (the
// orchestrator passes the list in MC_KNOWN): such a violation is reported once, but it neither
// stops the exploration nor hides other violations.
func IsKnown(sig string) bool {
	if knownSigs == nil {
		knownSigs = map[string]bool{}
		for _, k := range strings.Split(os.Getenv("MC_KNOWN"), "\x1f") {
			if k != "" {
				knownSigs[k] = true
			}
		}
	}
	return knownSigs[sig]
}

// cleanup releases what an execution left behind (descriptors of unwound threads); scenarios
// implement it when they own kernel objects.
func cleanup(sc Scenario) {
	if c, ok := sc.(interface{ Cleanup() }); ok {
		c.Cleanup()
	}
}
