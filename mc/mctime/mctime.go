// Package mctime stands in for package time in the instrumented root package of gnet: types and
// constants are aliases of the real ones (generated aliases_gen.go), timers and tickers run on a
// VIRTUAL clock owned by the explorer: time advances only when no thread of the closed system is
// enabled (to the next deadline), so executions never depend on wall-clock time.
package mctime

import (
	"sort"
	real "time"

	"github.com/panjf2000/gnet/v2/internal/verifmc/sched"
)

type vtimer struct {
	when   int64 // virtual nanoseconds
	period int64
	c      chan real.Time
	f      func()
	active bool
	seq    int
}

type clock struct {
	now    int64
	timers []*vtimer
	seq    int
	Fired  int
}

var clk = &clock{}

// Reset starts a new virtual clock and installs the idle hook (called by the harness inside the
// execution, i.e. after the scheduler is attached).
//
//go:norace
func Reset() {
	clk = &clock{}
	sched.SetIdleHook(advance)
}

// Now returns the virtual time in nanoseconds since the start of the execution.
//
//go:norace
func VirtualNow() int64 { return clk.now }

// Fired returns how many timers have fired.
//
//go:norace
func Fired() int { return clk.Fired }

// Pending returns the number of armed timers.
//
//go:norace
func Pending() int {
	n := 0
	for _, t := range clk.timers {
		if t.active {
			n++
		}
	}
	return n
}

// advance fires the earliest armed timer (advancing virtual time to its deadline). It is the
// scheduler's idle hook: it runs only when no thread is enabled.
//
//go:norace
func advance() bool {
	var act []*vtimer
	for _, t := range clk.timers {
		if t.active {
			act = append(act, t)
		}
	}
	if len(act) == 0 {
		return false
	}
	sort.SliceStable(act, func(a, b int) bool {
		if act[a].when != act[b].when {
			return act[a].when < act[b].when
		}
		return act[a].seq < act[b].seq
	})
	t := act[0]
	if t.when > clk.now {
		clk.now = t.when
	}
	fire(t)
	return true
}

//go:norace
func fire(t *vtimer) {
	clk.Fired++
	if t.period > 0 {
		t.when = clk.now + t.period
	} else {
		t.active = false
	}
	if t.f != nil {
		f := t.f
		sched.Go("timerfunc", f)
		return
	}
	select {
	case t.c <- real.Unix(0, clk.now):
	default:
	}
}

//go:norace
func arm(d real.Duration, period real.Duration, f func()) *vtimer {
	clk.seq++
	if d < 0 {
		d = 0
	}
	t := &vtimer{when: clk.now + int64(d), period: int64(period), c: make(chan real.Time, 1), f: f, active: true, seq: clk.seq}
	clk.timers = append(clk.timers, t)
	return t
}

// Timer mirrors time.Timer on the virtual clock.
type Timer struct {
	C <-chan real.Time
	t *vtimer
	r *real.Timer
}

//go:norace
func NewTimer(d real.Duration) *Timer {
	if !sched.Attached() {
		r := real.NewTimer(d)
		return &Timer{C: r.C, r: r}
	}
	t := arm(d, 0, nil)
	return &Timer{C: t.c, t: t}
}

//go:norace
func (t *Timer) Stop() bool {
	if t.r != nil {
		return t.r.Stop()
	}
	was := t.t.active
	t.t.active = false
	return was
}

//go:norace
func (t *Timer) Reset(d real.Duration) bool {
	if t.r != nil {
		return t.r.Reset(d)
	}
	was := t.t.active
	if d < 0 {
		d = 0
	}
	clk.seq++
	t.t.when = clk.now + int64(d)
	t.t.seq = clk.seq
	t.t.active = true
	return was
}

//go:norace
func AfterFunc(d real.Duration, f func()) *Timer {
	if !sched.Attached() {
		r := real.AfterFunc(d, f)
		return &Timer{r: r}
	}
	t := arm(d, 0, f)
	return &Timer{t: t}
}

//go:norace
func After(d real.Duration) <-chan real.Time { return NewTimer(d).C }

// Ticker mirrors time.Ticker on the virtual clock.
type Ticker struct {
	C <-chan real.Time
	t *vtimer
	r *real.Ticker
}

//go:norace
func NewTicker(d real.Duration) *Ticker {
	if d <= 0 {
		panic("non-positive interval for NewTicker")
	}
	if !sched.Attached() {
		r := real.NewTicker(d)
		return &Ticker{C: r.C, r: r}
	}
	t := arm(d, d, nil)
	return &Ticker{C: t.c, t: t}
}

//go:norace
func (t *Ticker) Stop() {
	if t.r != nil {
		t.r.Stop()
		return
	}
	t.t.active = false
}

//go:norace
func (t *Ticker) Reset(d real.Duration) {
	if t.r != nil {
		t.r.Reset(d)
		return
	}
	t.t.period = int64(d)
	t.t.when = clk.now + int64(d)
	t.t.active = true
}

//go:norace
func Tick(d real.Duration) <-chan real.Time { return NewTicker(d).C }

// Sleep parks the thread until the virtual clock has passed d.
//
//go:norace
func Sleep(d real.Duration) {
	if !sched.Attached() {
		real.Sleep(d)
		return
	}
	t := arm(d, 0, nil)
	sched.RecvDiscard(t.c)
}
