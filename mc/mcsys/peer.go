package mcsys

import (
	real "golang.org/x/sys/unix"

	"github.com/panjf2000/gnet/v2/internal/verifmc/sched"
)

// Harness-side ("peer"/"user") system calls: real calls, each a scheduling point, logged in the
// ledger as owned by the application so that fd-number reuse is visible to the C07 oracle.

//go:norace
func PConnectUnix(path string) (int, error) {
	sched.Point("peer.socket", 0)
	fd, err := real.Socket(real.AF_UNIX, real.SOCK_STREAM|real.SOCK_NONBLOCK|real.SOCK_CLOEXEC, 0)
	if err != nil {
		return -1, err
	}
	L.created(fd, "user", "peer")
	sched.Point("peer.connect", int64(fd))
	err = real.Connect(fd, &real.SockaddrUnix{Name: path})
	L.log("peer.connect", fd, 0, 0, err, "user", "")
	if err != nil && err != real.EINPROGRESS {
		_ = real.Close(fd)
		L.closed(fd, "user", nil)
		return -1, err
	}
	return fd, nil
}

//go:norace
func PWrite(fd int, p []byte) (int, error) {
	sched.Point("peer.write", int64(fd))
	n, err := real.Write(fd, p)
	L.log("peer.write", fd, len(p), n, err, "user", "")
	return n, err
}

//go:norace
func PRead(fd int, p []byte) (int, error) {
	sched.Point("peer.read", int64(fd))
	n, err := real.Read(fd, p)
	L.log("peer.read", fd, len(p), n, err, "user", "")
	return n, err
}

//go:norace
func PClose(fd int) error {
	sched.Point("peer.close", int64(fd))
	err := real.Close(fd)
	L.log("peer.close", fd, 0, 0, err, "user", "")
	L.closed(fd, "user", err)
	return err
}

//go:norace
func PShutdown(fd int, how int) error {
	sched.Point("peer.shutdown", int64(fd))
	err := real.Shutdown(fd, how)
	L.log("peer.shutdown", fd, how, 0, err, "user", "")
	return err
}

// POpen opens and immediately returns a descriptor owned by the application (used by "user"
// threads that churn descriptor numbers).
//
//go:norace
func POpen() (int, error) {
	sched.Point("user.open", 0)
	fd, err := real.Eventfd(0, real.EFD_NONBLOCK|real.EFD_CLOEXEC)
	if err == nil {
		L.created(fd, "user", "user-eventfd")
	}
	return fd, err
}

// PUDPSocket creates a non-blocking UDP socket bound to the loopback address (v6: ::1) and an
// ephemeral port; it returns the descriptor and the bound address.
//
//go:norace
func PUDPSocket(v6 bool, port int) (int, real.Sockaddr, error) {
	sched.Point("peer.socket", 0)
	dom := real.AF_INET
	if v6 {
		dom = real.AF_INET6
	}
	fd, err := real.Socket(dom, real.SOCK_DGRAM|real.SOCK_NONBLOCK|real.SOCK_CLOEXEC, 0)
	if err != nil {
		return -1, nil, err
	}
	L.created(fd, "user", "peer-udp")
	var sa real.Sockaddr
	if v6 {
		a := &real.SockaddrInet6{Port: port}
		a.Addr[15] = 1
		sa = a
	} else {
		sa = &real.SockaddrInet4{Port: port, Addr: [4]byte{127, 0, 0, 1}}
	}
	if err := real.Bind(fd, sa); err != nil {
		_ = real.Close(fd)
		L.closed(fd, "user", nil)
		return -1, nil, err
	}
	bound, err := real.Getsockname(fd)
	return fd, bound, err
}

//go:norace
func PSendto(fd int, p []byte, to real.Sockaddr) error {
	sched.Point("peer.sendto", int64(fd))
	err := real.Sendto(fd, p, 0, to)
	L.log("peer.sendto", fd, len(p), len(p), err, "user", "")
	return err
}

//go:norace
func PRecvfrom(fd int, p []byte) (int, real.Sockaddr, error) {
	sched.Point("peer.recvfrom", int64(fd))
	n, from, err := real.Recvfrom(fd, p, 0)
	L.log("peer.recvfrom", fd, len(p), n, err, "user", "")
	return n, from, err
}

// FrameworkSockets lists the descriptors the framework created with socket(2) and still owns.
//
//go:norace
func FrameworkSockets() []int {
	var out []int
	if L == nil {
		return out
	}
	for fd := 0; fd < maxFd; fd++ {
		if st := L.get(fd); st != nil && st.owner == "fw" && st.kind == "socket" {
			out = append(out, fd)
		}
	}
	return out
}

// PConnectTCP connects a non-blocking TCP socket to ip:port on loopback (or a scoped IPv6
// address) and returns the descriptor and its local address.
//
//go:norace
func PConnectTCP(sa real.Sockaddr, v6 bool) (int, real.Sockaddr, error) {
	sched.Point("peer.socket", 0)
	dom := real.AF_INET
	if v6 {
		dom = real.AF_INET6
	}
	fd, err := real.Socket(dom, real.SOCK_STREAM|real.SOCK_NONBLOCK|real.SOCK_CLOEXEC, 0)
	if err != nil {
		return -1, nil, err
	}
	L.created(fd, "user", "peer-tcp")
	sched.Point("peer.connect", int64(fd))
	err = real.Connect(fd, sa)
	L.log("peer.connect", fd, 0, 0, err, "user", "")
	if err != nil && err != real.EINPROGRESS {
		_ = real.Close(fd)
		L.closed(fd, "user", nil)
		return -1, nil, err
	}
	if err == real.EINPROGRESS {
		// loopback handshakes complete inside connect(2)'s softirq; wait (bounded, real time) for it
		pfd := []real.PollFd{{Fd: int32(fd), Events: real.POLLOUT}}
		_, _ = real.Poll(pfd, 1000)
	}
	local, _ := real.Getsockname(fd)
	return fd, local, nil
}

// FrameworkFds lists the descriptors of the given kind that the framework owns.
//
//go:norace
func FrameworkFds(kind string) []int {
	var out []int
	if L == nil {
		return out
	}
	for fd := 0; fd < maxFd; fd++ {
		if st := L.get(fd); st != nil && st.owner == "fw" && st.kind == kind {
			out = append(out, fd)
		}
	}
	return out
}
