package mcsys

import (
	real "golang.org/x/sys/unix"

	"github.com/panjf2000/gnet/v2/internal/verifmc/sched"
)

// Harness-side ("peer"/"user") system calls: real calls, each a scheduling point, logged in the
// ledger as owned by the application so that fd-number reuse is visible to the C07 oracle.

func PConnectUnix(path string) (int, error) {
	sched.Point("peer.socket", 0)
	fd, err := real.Socket(real.AF_UNIX, real.SOCK_STREAM|real.SOCK_NONBLOCK|real.SOCK_CLOEXEC, 0)
	if err != nil {
		return -1, err
	}
	L.created(fd, "user", "peer")
	sched.Point("peer.connect", int64(fd))
	err = real.Connect(fd, &real.SockaddrUnix{Name: path})
	L.log("peer.connect", fd, 0, 0, err, "user", "")
	if err != nil && err != real.EINPROGRESS {
		_ = real.Close(fd)
		L.closed(fd, "user", nil)
		return -1, err
	}
	return fd, nil
}

func PWrite(fd int, p []byte) (int, error) {
	sched.Point("peer.write", int64(fd))
	n, err := real.Write(fd, p)
	L.log("peer.write", fd, len(p), n, err, "user", "")
	return n, err
}

func PRead(fd int, p []byte) (int, error) {
	sched.Point("peer.read", int64(fd))
	n, err := real.Read(fd, p)
	L.log("peer.read", fd, len(p), n, err, "user", "")
	return n, err
}

func PClose(fd int) error {
	sched.Point("peer.close", int64(fd))
	err := real.Close(fd)
	L.log("peer.close", fd, 0, 0, err, "user", "")
	L.closed(fd, "user", err)
	return err
}

func PShutdown(fd int, how int) error {
	sched.Point("peer.shutdown", int64(fd))
	err := real.Shutdown(fd, how)
	L.log("peer.shutdown", fd, how, 0, err, "user", "")
	return err
}

// POpen opens and immediately returns a descriptor owned by the application (used by "user"
// threads that churn descriptor numbers).
func POpen() (int, error) {
	sched.Point("user.open", 0)
	fd, err := real.Eventfd(0, real.EFD_NONBLOCK|real.EFD_CLOEXEC)
	if err == nil {
		L.created(fd, "user", "user-eventfd")
	}
	return fd, err
}
