// Package mcsys stands in for golang.org/x/sys/unix in the instrumented gnet tree. Sockets, epoll
// instances and eventfds stay REAL kernel objects; in front of each real call this shim adds
//   - a scheduling point (sched.Point),
//   - visible blocking (epoll_wait with a timeout parks the thread until poll(2) says the epoll
//     descriptor is readable, then calls the real epoll_wait with timeout 0),
//   - a descriptor ledger (who owns which fd number, use after close, double close, leaks),
//   - environment deviations through sched.Choose (short transfers, EAGAIN, errno injection),
//     restricted to answers the kernel could give.
//
// Constants, types and un-intercepted functions are aliased by a generated file (aliases_gen.go).
package mcsys

import (
	"fmt"
	"runtime"
	"strings"
	"unsafe"

	real "golang.org/x/sys/unix"

	"github.com/panjf2000/gnet/v2/internal/verifmc/sched"
)

// ---------------------------------------------------------------------------------------------
// ledger

// Event is one system call of the framework (or a harness-side call made through the P* helpers).
type Event struct {
	Seq    int
	Thread int
	Op     string
	Fd     int
	Arg    int // second fd / length / epoll op
	N      int
	Err    string
	Who    string // "fw" or "user"
	Inject string
}

type fdState struct {
	owner string // "fw", "user" or "" (closed / unknown)
	kind  string
	gen   int
}

// Ledger of one execution.
type Ledger struct {
	Events     []Event
	fds        []*fdState // indexed by descriptor number (a slice, not a map: map operations are race-instrumented inside the runtime even when called from //go:norace code)
	Violations []string   // descriptor-ownership violations found so far (C07 oracle)
	Sigs       []string
	gen        int
	seq        int
	Created    int
	Closed     int
}

var L *Ledger

const maxFd = 8192

//go:norace
func (l *Ledger) get(fd int) *fdState {
	if l == nil || fd < 0 || fd >= len(l.fds) {
		return nil
	}
	return l.fds[fd]
}

//go:norace
func (l *Ledger) set(fd int, st *fdState) {
	if l != nil && fd >= 0 && fd < len(l.fds) {
		l.fds[fd] = st
	}
}

// Deviate is the fault/deviation policy of the current scenario: for a call site it returns the
// alternative answers to offer (besides the default "call the kernel unchanged").
var Deviate func(site string, fd int, n int) []string

// Reset starts a new ledger (called by the harness at the start of every execution).
//
//go:norace
func Reset() *Ledger {
	L = &Ledger{fds: make([]*fdState, maxFd)}
	Deviate = nil
	return L
}

//go:norace
func errStr(err error) string {
	if err == nil {
		return ""
	}
	if e, ok := err.(real.Errno); ok {
		return real.ErrnoName(e)
	}
	return err.Error()
}

//go:norace
func (l *Ledger) log(op string, fd, arg, n int, err error, who, inject string) {
	if l == nil {
		return
	}
	l.seq++
	l.Events = append(l.Events, Event{Seq: l.seq, Thread: sched.CurrentThread(), Op: op, Fd: fd, Arg: arg, N: n, Err: errStr(err), Who: who, Inject: inject})
}

//go:norace
func (l *Ledger) violate(sig, format string, a ...interface{}) {
	if l == nil {
		return
	}
	l.Violations = append(l.Violations, fmt.Sprintf(format, a...))
	l.Sigs = append(l.Sigs, sig)
}

//go:norace
func (l *Ledger) created(fd int, who, kind string) {
	if l == nil || fd < 0 {
		return
	}
	if st := l.get(fd); st != nil && st.owner != "" {
		l.violate("fd:dupnumber", "kernel handed out fd %d (%s) while the ledger believes it is open (%s, %s): a close was missed", fd, kind, st.owner, st.kind)
	}
	l.gen++
	l.set(fd, &fdState{owner: who, kind: kind, gen: l.gen})
	if who == "fw" {
		l.Created++
	}
}

// use records a framework system call on fd and checks that the framework owns it.
//
//go:norace
func (l *Ledger) use(op string, fd int) {
	if l == nil {
		return
	}
	st := l.get(fd)
	switch {
	case st == nil:
		// never seen: e.g. stdin/out or an fd created outside the shim; ignore
	case st.owner == "":
		l.violate("fd:useafterclose:"+op+"@"+callSite(), "%s(%d) by the framework after it had closed descriptor %d (%s); call site %s", op, fd, fd, st.kind, callSite())
	case st.owner == "user":
		l.violate("fd:foreign:"+op+"@"+callSite(), "%s(%d) by the framework on descriptor %d which belongs to the application (%s); call site %s", op, fd, fd, st.kind, callSite())
	}
}

//go:norace
func (l *Ledger) closed(fd int, who string, err error) {
	if l == nil {
		return
	}
	st := l.get(fd)
	if who == "fw" {
		switch {
		case st == nil:
			if fd >= 0 {
				l.violate("fd:unowned-close", "close(%d) by the framework: it never created descriptor %d (a zero or stale value was closed)", fd, fd)
			}
		case st.owner == "":
			l.violate("fd:doubleclose", "close(%d) by the framework: descriptor %d (%s) had already been closed", fd, fd, st.kind)
		case st.owner == "user":
			l.violate("fd:foreignclose", "close(%d) by the framework closes a descriptor owned by the application (%s)", fd, st.kind)
		}
	}
	if err == nil || err == real.EINTR {
		if st != nil && st.owner == who {
			if who == "fw" {
				l.Closed++
			}
		}
		if st != nil {
			st.owner = ""
		}
	}
}

// Transfer hands a framework-created descriptor to the application (Dup, DupListener results).
//
//go:norace
func Transfer(fd int, kind string) {
	if L == nil {
		return
	}
	if st := L.get(fd); st != nil {
		if st.owner == "fw" {
			L.Created--
		}
		st.owner = "user"
		st.kind = kind
	} else {
		L.set(fd, &fdState{owner: "user", kind: kind})
	}
}

// Adopt marks a descriptor created outside the shim (e.g. by package net) as framework-owned
// or user-owned.
//
//go:norace
func Adopt(fd int, who, kind string) {
	if L == nil {
		return
	}
	L.gen++
	L.set(fd, &fdState{owner: who, kind: kind, gen: L.gen})
	if who == "fw" {
		L.Created++
	}
}

// Owner returns the ledger's owner of fd ("fw", "user", "" closed, "?" unknown).
//
//go:norace
func Owner(fd int) string {
	if L == nil {
		return "?"
	}
	if st := L.get(fd); st != nil {
		return st.owner
	}
	return "?"
}

// OpenFrameworkFds lists the descriptors the framework created and has not closed.
//
//go:norace
func OpenFrameworkFds() []string {
	var out []string
	if L == nil {
		return out
	}
	for fd := 0; fd < maxFd; fd++ {
		if st := L.get(fd); st != nil && st.owner == "fw" {
			out = append(out, fmt.Sprintf("%d(%s)", fd, st.kind))
		}
	}
	return out
}

// CloseAllOpen really closes every descriptor the ledger still lists as open (end of execution).
//
//go:norace
func CloseAllOpen() {
	if L == nil {
		return
	}
	for fd, st := range L.fds {
		if st != nil && st.owner != "" {
			_ = real.Close(fd)
			st.owner = ""
		}
	}
}

// ---------------------------------------------------------------------------------------------
// deviations

//go:norace
func deviation(site string, fd, n int) string {
	if Deviate == nil || !sched.Active() {
		return ""
	}
	alts := Deviate(site, fd, n)
	if len(alts) == 0 {
		return ""
	}
	label := site
	for _, a := range alts {
		label += "|" + a
	}
	c := sched.Choose(1+len(alts), label)
	if c == 0 {
		return ""
	}
	return alts[c-1]
}

var errnoByName = map[string]real.Errno{
	"EAGAIN": real.EAGAIN, "EINTR": real.EINTR, "EPIPE": real.EPIPE, "ECONNRESET": real.ECONNRESET, "ETIMEDOUT": real.ETIMEDOUT,
	"ECONNABORTED": real.ECONNABORTED, "ENOMEM": real.ENOMEM, "ENOENT": real.ENOENT, "EBADF": real.EBADF, "ECONNREFUSED": real.ECONNREFUSED,
	"EMFILE": real.EMFILE, "ENOBUFS": real.ENOBUFS, "EPERM": real.EPERM, "EIO": real.EIO, "EADDRINUSE": real.EADDRINUSE,
}

//go:norace
func shorten(dev string, n int) int {
	switch dev {
	case "short1":
		if n > 1 {
			return 1
		}
	case "shorthalf":
		if n > 1 {
			return n / 2
		}
	case "shortm1":
		if n > 1 {
			return n - 1
		}
	}
	return n
}

// ---------------------------------------------------------------------------------------------
// intercepted calls (framework side)

//go:norace
func Read(fd int, p []byte) (n int, err error) {
	if !sched.Active() {
		return real.Read(fd, p)
	}
	sched.Point("read", int64(fd))
	L.use("read", fd)
	dev := deviation("read", fd, len(p))
	if e, ok := errnoByName[dev]; ok {
		L.log("read", fd, len(p), -1, e, "fw", dev)
		return -1, e
	}
	q := p
	if m := shorten(dev, len(p)); m < len(p) {
		q = p[:m]
	}
	n, err = real.Read(fd, q)
	L.log("read", fd, len(q), n, err, "fw", dev)
	return
}

//go:norace
func Write(fd int, p []byte) (n int, err error) {
	if !sched.Active() {
		return real.Write(fd, p)
	}
	sched.Point("write", int64(fd))
	L.use("write", fd)
	dev := deviation("write", fd, len(p))
	if e, ok := errnoByName[dev]; ok {
		L.log("write", fd, len(p), -1, e, "fw", dev)
		return -1, e
	}
	q := p
	if m := shorten(dev, len(p)); m < len(p) {
		q = p[:m]
	}
	n, err = real.Write(fd, q)
	L.log("write", fd, len(q), n, err, "fw", dev)
	return
}

//go:norace
func Writev(fd int, iovs [][]byte) (n int, err error) {
	if !sched.Active() {
		return real.Writev(fd, iovs)
	}
	sched.Point("writev", int64(fd))
	L.use("writev", fd)
	total := 0
	for _, b := range iovs {
		total += len(b)
	}
	dev := deviation("writev", fd, total)
	if e, ok := errnoByName[dev]; ok {
		L.log("writev", fd, total, -1, e, "fw", dev)
		return -1, e
	}
	if m := shorten(dev, total); m < total {
		// a real short writev: offer only a prefix of the vector
		var cut [][]byte
		left := m
		for _, b := range iovs {
			if left == 0 {
				break
			}
			if len(b) > left {
				b = b[:left]
			}
			cut = append(cut, b)
			left -= len(b)
		}
		n, err = real.Writev(fd, cut)
		L.log("writev", fd, m, n, err, "fw", dev)
		return
	}
	n, err = real.Writev(fd, iovs)
	L.log("writev", fd, total, n, err, "fw", dev)
	return
}

//go:norace
func Readv(fd int, iovs [][]byte) (n int, err error) {
	if !sched.Active() {
		return real.Readv(fd, iovs)
	}
	sched.Point("readv", int64(fd))
	L.use("readv", fd)
	n, err = real.Readv(fd, iovs)
	L.log("readv", fd, 0, n, err, "fw", "")
	return
}

//go:norace
func Recvfrom(fd int, p []byte, flags int) (n int, from real.Sockaddr, err error) {
	if !sched.Active() {
		return real.Recvfrom(fd, p, flags)
	}
	sched.Point("recvfrom", int64(fd))
	L.use("recvfrom", fd)
	dev := deviation("recvfrom", fd, len(p))
	if e, ok := errnoByName[dev]; ok {
		L.log("recvfrom", fd, len(p), -1, e, "fw", dev)
		return -1, nil, e
	}
	n, from, err = real.Recvfrom(fd, p, flags)
	L.log("recvfrom", fd, len(p), n, err, "fw", "")
	return
}

//go:norace
func Sendto(fd int, p []byte, flags int, to real.Sockaddr) (err error) {
	if !sched.Active() {
		return real.Sendto(fd, p, flags, to)
	}
	sched.Point("sendto", int64(fd))
	L.use("sendto", fd)
	dev := deviation("sendto", fd, len(p))
	if e, ok := errnoByName[dev]; ok {
		L.log("sendto", fd, len(p), -1, e, "fw", dev)
		return e
	}
	err = real.Sendto(fd, p, flags, to)
	L.log("sendto", fd, len(p), len(p), err, "fw", "")
	return
}

//go:norace
func Send(fd int, p []byte, flags int) (err error) {
	if !sched.Active() {
		return real.Send(fd, p, flags)
	}
	sched.Point("send", int64(fd))
	L.use("send", fd)
	dev := deviation("send", fd, len(p))
	if e, ok := errnoByName[dev]; ok {
		L.log("send", fd, len(p), -1, e, "fw", dev)
		return e
	}
	err = real.Send(fd, p, flags)
	L.log("send", fd, len(p), len(p), err, "fw", "")
	return
}

//go:norace
func Accept4(fd int, flags int) (nfd int, sa real.Sockaddr, err error) {
	if !sched.Active() {
		return real.Accept4(fd, flags)
	}
	sched.Point("accept4", int64(fd))
	L.use("accept4", fd)
	dev := deviation("accept4", fd, 0)
	if e, ok := errnoByName[dev]; ok {
		L.log("accept4", fd, 0, -1, e, "fw", dev)
		return -1, nil, e
	}
	nfd, sa, err = real.Accept4(fd, flags)
	L.log("accept4", fd, nfd, nfd, err, "fw", "")
	if err == nil {
		L.created(nfd, "fw", "accepted")
	}
	return
}

//go:norace
func Accept(fd int) (nfd int, sa real.Sockaddr, err error) {
	if !sched.Active() {
		return real.Accept(fd)
	}
	sched.Point("accept", int64(fd))
	L.use("accept", fd)
	nfd, sa, err = real.Accept(fd)
	L.log("accept", fd, nfd, nfd, err, "fw", "")
	if err == nil {
		L.created(nfd, "fw", "accepted")
	}
	return
}

//go:norace
func Close(fd int) (err error) {
	if !sched.Active() {
		return real.Close(fd)
	}
	sched.Point("close", int64(fd))
	dev := deviation("close", fd, 0)
	err = real.Close(fd)
	if dev == "EINTR" && err == nil {
		err = real.EINTR // the descriptor IS closed (Linux semantics), the call merely reports EINTR
	}
	L.log("close", fd, 0, 0, err, "fw", dev)
	L.closed(fd, "fw", err)
	return
}

//go:norace
func Socket(domain, typ, proto int) (fd int, err error) {
	if !sched.Active() {
		return real.Socket(domain, typ, proto)
	}
	sched.Point("socket", 0)
	if e, ok := errnoByName[deviation("socket", -1, 0)]; ok {
		L.log("socket", -1, domain, -1, e, "fw", real.ErrnoName(e))
		return -1, e
	}
	fd, err = real.Socket(domain, typ, proto)
	L.log("socket", fd, domain, fd, err, "fw", "")
	if err == nil {
		L.created(fd, "fw", "socket")
	}
	return
}

//go:norace
func Bind(fd int, sa real.Sockaddr) (err error) {
	if !sched.Active() {
		return real.Bind(fd, sa)
	}
	sched.Point("bind", int64(fd))
	L.use("bind", fd)
	if e, ok := errnoByName[deviation("bind", fd, 0)]; ok {
		L.log("bind", fd, 0, -1, e, "fw", real.ErrnoName(e))
		return e
	}
	err = real.Bind(fd, sa)
	L.log("bind", fd, 0, 0, err, "fw", "")
	return
}

//go:norace
func Listen(fd int, n int) (err error) {
	if !sched.Active() {
		return real.Listen(fd, n)
	}
	sched.Point("listen", int64(fd))
	L.use("listen", fd)
	if e, ok := errnoByName[deviation("listen", fd, 0)]; ok {
		L.log("listen", fd, n, -1, e, "fw", real.ErrnoName(e))
		return e
	}
	err = real.Listen(fd, n)
	L.log("listen", fd, n, 0, err, "fw", "")
	return
}

//go:norace
func Connect(fd int, sa real.Sockaddr) (err error) {
	if !sched.Active() {
		return real.Connect(fd, sa)
	}
	sched.Point("connect", int64(fd))
	L.use("connect", fd)
	err = real.Connect(fd, sa)
	L.log("connect", fd, 0, 0, err, "fw", "")
	return
}

//go:norace
func EpollCreate1(flag int) (fd int, err error) {
	if !sched.Active() {
		return real.EpollCreate1(flag)
	}
	sched.Point("epoll_create1", 0)
	if e, ok := errnoByName[deviation("epoll_create1", -1, 0)]; ok {
		L.log("epoll_create1", -1, 0, -1, e, "fw", real.ErrnoName(e))
		return -1, e
	}
	fd, err = real.EpollCreate1(flag)
	L.log("epoll_create1", fd, 0, fd, err, "fw", "")
	if err == nil {
		L.created(fd, "fw", "epoll")
	}
	return
}

//go:norace
func Eventfd(initval uint, flags int) (fd int, err error) {
	if !sched.Active() {
		return real.Eventfd(initval, flags)
	}
	sched.Point("eventfd", 0)
	if e, ok := errnoByName[deviation("eventfd", -1, 0)]; ok {
		L.log("eventfd", -1, 0, -1, e, "fw", real.ErrnoName(e))
		return -1, e
	}
	fd, err = real.Eventfd(initval, flags)
	L.log("eventfd", fd, 0, fd, err, "fw", "")
	if err == nil {
		L.created(fd, "fw", "eventfd")
	}
	return
}

var epollOpName = map[int]string{real.EPOLL_CTL_ADD: "epoll_ctl_add", real.EPOLL_CTL_MOD: "epoll_ctl_mod", real.EPOLL_CTL_DEL: "epoll_ctl_del"}

//go:norace
func EpollCtl(epfd int, op int, fd int, event *real.EpollEvent) (err error) {
	if !sched.Active() {
		return real.EpollCtl(epfd, op, fd, event)
	}
	name := epollOpName[op]
	sched.Point(name, int64(fd))
	L.use(name, fd)
	L.use("epoll_ctl", epfd)
	dev := deviation(name, fd, 0)
	if e, ok := errnoByName[dev]; ok {
		L.log(name, fd, epfd, -1, e, "fw", dev)
		return e
	}
	err = real.EpollCtl(epfd, op, fd, event)
	ev := 0
	if event != nil {
		ev = int(event.Events)
	}
	L.log(name, fd, ev, 0, err, "fw", "")
	return
}

// EpollReadable reports (without consuming anything) whether epoll_wait on epfd would return
// at least one event: poll(2) on the epoll descriptor itself.
//
//go:norace
func EpollReadable(epfd int) bool {
	pfd := []real.PollFd{{Fd: int32(epfd), Events: real.POLLIN}}
	for {
		n, err := real.Poll(pfd, 0)
		if err == real.EINTR {
			continue
		}
		return err == nil && n > 0 && pfd[0].Revents&real.POLLIN != 0
	}
}

// FdReadable reports whether fd is readable (or at EOF / in error) right now.
//
//go:norace
func FdReadable(fd int) bool {
	pfd := []real.PollFd{{Fd: int32(fd), Events: real.POLLIN}}
	for {
		n, err := real.Poll(pfd, 0)
		if err == real.EINTR {
			continue
		}
		return err == nil && n > 0 && pfd[0].Revents != 0
	}
}

//go:norace
func EpollWait(epfd int, events []real.EpollEvent, msec int) (n int, err error) {
	if !sched.Active() {
		return real.EpollWait(epfd, events, msec)
	}
	if msec != 0 {
		sched.BlockUntil(func() bool { return EpollReadable(epfd) })
	}
	sched.Point("epoll_wait", int64(epfd))
	L.use("epoll_wait", epfd)
	dev := deviation("epoll_wait", epfd, 0)
	if e, ok := errnoByName[dev]; ok {
		L.log("epoll_wait", epfd, msec, -1, e, "fw", dev)
		return -1, e
	}
	n, err = real.EpollWait(epfd, events, 0)
	L.log("epoll_wait", epfd, msec, n, err, "fw", "")
	return
}

//go:norace
func FcntlInt(fd uintptr, cmd, arg int) (r int, err error) {
	if !sched.Active() {
		return real.FcntlInt(fd, cmd, arg)
	}
	sched.Point("fcntl", int64(fd))
	L.use("fcntl", int(fd))
	r, err = real.FcntlInt(fd, cmd, arg)
	L.log("fcntl", int(fd), cmd, r, err, "fw", "")
	if err == nil && (cmd == real.F_DUPFD_CLOEXEC || cmd == real.F_DUPFD) {
		L.created(r, "fw", "dup")
	}
	return
}

//go:norace
func Dup(fd int) (nfd int, err error) {
	if !sched.Active() {
		return real.Dup(fd)
	}
	sched.Point("dup", int64(fd))
	L.use("dup", fd)
	nfd, err = real.Dup(fd)
	L.log("dup", fd, nfd, nfd, err, "fw", "")
	if err == nil {
		L.created(nfd, "fw", "dup")
	}
	return
}

// Syscall6 / RawSyscall6 are used by the poll_opt poller for epoll_wait / epoll_ctl.
//
//go:norace
func Syscall6(trap, a1, a2, a3, a4, a5, a6 uintptr) (r1, r2 uintptr, err real.Errno) {
	return rawsys(false, trap, a1, a2, a3, a4, a5, a6)
}

//go:norace
func RawSyscall6(trap, a1, a2, a3, a4, a5, a6 uintptr) (r1, r2 uintptr, err real.Errno) {
	return rawsys(true, trap, a1, a2, a3, a4, a5, a6)
}

//go:norace
func rawsys(raw bool, trap, a1, a2, a3, a4, a5, a6 uintptr) (r1, r2 uintptr, err real.Errno) {
	if !sched.Active() {
		if raw {
			return real.RawSyscall6(trap, a1, a2, a3, a4, a5, a6)
		}
		return real.Syscall6(trap, a1, a2, a3, a4, a5, a6)
	}
	switch trap {
	case real.SYS_EPOLL_WAIT:
		epfd := int(a1)
		if int32(a4) != 0 {
			sched.BlockUntil(func() bool { return EpollReadable(epfd) })
		}
		sched.Point("epoll_wait", int64(epfd))
		L.use("epoll_wait", epfd)
		dev := deviation("epoll_wait", epfd, 0)
		if e, ok := errnoByName[dev]; ok {
			L.log("epoll_wait", epfd, int(int32(a4)), -1, e, "fw", dev)
			return ^uintptr(0), 0, e
		}
		r1, r2, err = real.RawSyscall6(trap, a1, a2, a3, 0, a5, a6)
		var e error
		if err != 0 {
			e = err
		}
		L.log("epoll_wait", epfd, int(int32(a4)), int(r1), e, "fw", "")
		return
	case real.SYS_EPOLL_CTL:
		epfd, op, fd := int(a1), int(a2), int(a3)
		name := epollOpName[op]
		sched.Point(name, int64(fd))
		L.use(name, fd)
		L.use("epoll_ctl", epfd)
		dev := deviation(name, fd, 0)
		if e, ok := errnoByName[dev]; ok {
			L.log(name, fd, epfd, -1, e, "fw", dev)
			return ^uintptr(0), 0, e
		}
		r1, r2, err = real.RawSyscall6(trap, a1, a2, a3, a4, a5, a6)
		var e error
		if err != 0 {
			e = err
		}
		L.log(name, fd, epfd, int(r1), e, "fw", "")
		return
	}
	sched.Point("syscall", int64(trap))
	if raw {
		return real.RawSyscall6(trap, a1, a2, a3, a4, a5, a6)
	}
	return real.Syscall6(trap, a1, a2, a3, a4, a5, a6)
}

// EpollCtlP / EpollWaitP replace gnet's raw unix.RawSyscall6(SYS_EPOLL_CTL|SYS_EPOLL_WAIT, ..)
// calls (poll_opt build; rewritten by cmd/check/instrument.go). They take the event argument as a
// real pointer: the goroutine parks at a scheduling point before the system call and its stack,
// where gnet keeps the epoll_event, may be moved by the runtime meanwhile.
//
//go:norace
func EpollCtlP(epfd, op, fd uintptr, ev unsafe.Pointer) (r1, r2 uintptr, err real.Errno) {
	if !sched.Active() {
		return real.RawSyscall6(real.SYS_EPOLL_CTL, epfd, op, fd, uintptr(ev), 0, 0)
	}
	name := epollOpName[int(op)]
	sched.Point(name, int64(fd))
	L.use(name, int(fd))
	L.use("epoll_ctl", int(epfd))
	dev := deviation(name, int(fd), 0)
	if e, ok := errnoByName[dev]; ok {
		L.log(name, int(fd), int(epfd), -1, e, "fw", dev)
		return ^uintptr(0), 0, e
	}
	r1, r2, err = real.RawSyscall6(real.SYS_EPOLL_CTL, epfd, op, fd, uintptr(ev), 0, 0)
	var e error
	if err != 0 {
		e = err
	}
	L.log(name, int(fd), int(epfd), int(r1), e, "fw", "")
	return
}

//go:norace
func EpollWaitP(epfd uintptr, events unsafe.Pointer, n, msec uintptr) (r1, r2 uintptr, err real.Errno) {
	if !sched.Active() {
		if int32(msec) == 0 {
			return real.RawSyscall6(real.SYS_EPOLL_WAIT, epfd, uintptr(events), n, 0, 0, 0)
		}
		return real.Syscall6(real.SYS_EPOLL_WAIT, epfd, uintptr(events), n, msec, 0, 0)
	}
	fd := int(epfd)
	if int32(msec) != 0 {
		sched.BlockUntil(func() bool { return EpollReadable(fd) })
	}
	sched.Point("epoll_wait", int64(fd))
	L.use("epoll_wait", fd)
	dev := deviation("epoll_wait", fd, 0)
	if e, ok := errnoByName[dev]; ok {
		L.log("epoll_wait", fd, int(int32(msec)), -1, e, "fw", dev)
		return ^uintptr(0), 0, e
	}
	r1, r2, err = real.RawSyscall6(real.SYS_EPOLL_WAIT, epfd, uintptr(events), n, 0, 0, 0)
	var e error
	if err != 0 {
		e = err
	}
	L.log("epoll_wait", fd, int(int32(msec)), int(r1), e, "fw", "")
	return
}

// Forget marks fd as closed by its owner outside the shim (harness closes with raw close(2)).
//
//go:norace
func Forget(fd int) {
	if L == nil {
		return
	}
	if st := L.get(fd); st != nil {
		st.owner = ""
	}
}

// KindOf returns what the ledger knows about fd ("accepted", "dup", "epoll", ...).
//
//go:norace
func KindOf(fd int) string {
	if L == nil {
		return ""
	}
	if st := L.get(fd); st != nil && st.owner != "" {
		return st.kind
	}
	return ""
}

// callSite names the innermost function of package gnet (not a shim, not a harness) on the stack.
//
//go:norace
func callSite() string {
	pcs := make([]uintptr, 32)
	n := runtime.Callers(3, pcs)
	frames := runtime.CallersFrames(pcs[:n])
	for {
		f, more := frames.Next()
		fn := f.Function
		if strings.HasPrefix(fn, "github.com/panjf2000/gnet/v2.") && !strings.Contains(f.File, "zz_") {
			return strings.TrimPrefix(fn, "github.com/panjf2000/gnet/v2.")
		}
		if !more {
			return "?"
		}
	}
}
