package seqmc

import (
	"fmt"
	"reflect"
	"strings"
)

// Scalars renders every scalar field (bool, integer, float, string) of the struct v points to,
// descending into nested structs and fixed-size arrays (non-zero elements only) but not through
// pointers, slices, maps, channels or functions (only "nil"/length is recorded for those).
//
// The harnesses append it to their hand-written state keys: a key that projects the real object
// onto the fields its author knew about merges states that differ in a field added later (a
// cached cursor, a "compaction disabled" switch left set), and merged states are explored from
// one representative only.  With Scalars in the key such a field splits the states again; on the
// unchanged code it adds nothing the hand-written key does not already determine, so the number
// of states stays the same.
func Scalars(v interface{}) string {
	var sb strings.Builder
	rv := reflect.ValueOf(v)
	for rv.Kind() == reflect.Ptr || rv.Kind() == reflect.Interface {
		if rv.IsNil() {
			return "nil"
		}
		rv = rv.Elem()
	}
	scalars(&sb, rv, 0)
	return sb.String()
}

func scalars(sb *strings.Builder, rv reflect.Value, depth int) {
	switch rv.Kind() {
	case reflect.Bool:
		fmt.Fprintf(sb, "%v", rv.Bool())
	case reflect.Int, reflect.Int8, reflect.Int16, reflect.Int32, reflect.Int64:
		fmt.Fprintf(sb, "%d", rv.Int())
	case reflect.Uint, reflect.Uint8, reflect.Uint16, reflect.Uint32, reflect.Uint64, reflect.Uintptr:
		fmt.Fprintf(sb, "%d", rv.Uint())
	case reflect.Float32, reflect.Float64:
		fmt.Fprintf(sb, "%g", rv.Float())
	case reflect.String:
		fmt.Fprintf(sb, "%q", rv.String())
	case reflect.Struct:
		if depth > 3 {
			return
		}
		sb.WriteByte('{')
		for i := 0; i < rv.NumField(); i++ {
			f := rv.Field(i)
			switch f.Kind() {
			case reflect.Ptr, reflect.Func, reflect.Chan, reflect.Interface, reflect.UnsafePointer:
				continue // identity of referenced objects is not part of the key
			case reflect.Slice, reflect.Map:
				fmt.Fprintf(sb, "%s#%d,", rv.Type().Field(i).Name, f.Len())
				continue
			}
			sb.WriteString(rv.Type().Field(i).Name)
			sb.WriteByte('=')
			scalars(sb, f, depth+1)
			sb.WriteByte(',')
		}
		sb.WriteByte('}')
	case reflect.Array:
		sb.WriteByte('[')
		for i := 0; i < rv.Len(); i++ {
			e := rv.Index(i)
			if e.IsZero() {
				continue
			}
			switch e.Kind() {
			case reflect.Ptr, reflect.Func, reflect.Chan, reflect.Interface, reflect.UnsafePointer:
				continue
			case reflect.Slice, reflect.Map:
				fmt.Fprintf(sb, "%d#%d,", i, e.Len())
				continue
			}
			fmt.Fprintf(sb, "%d:", i)
			scalars(sb, e, depth+1)
			sb.WriteByte(',')
		}
		sb.WriteByte(']')
	}
}
