package seqmc

import (
	"fmt"
	"strings"

	"github.com/panjf2000/gnet/v2/internal/verifmc/sched"
)

// AddSched folds one scheduler-based exploration into the result.
func (r *Result) AddSched(st sched.Stats, vs []sched.Violation) {
	desc := fmt.Sprintf("%s: %s; completed %s; %d threads; distinct outcomes %d; max steps %d; ends %v; fair rotations %d",
		st.Scenario, strings.Join(st.PerBound, ", "), st.Completed, st.Threads, st.Outcomes, st.MaxSteps, st.Ends, st.Rotations)
	if i, _ := Shard(); i == 0 {
		desc = "(shard 0 only) " + desc
	}
	if i, _ := Shard(); i == 0 || len(vs) > 0 {
		r.Scenarios = append(r.Scenarios, Stats{Scenario: desc, States: st.Executions, Transitions: st.Steps, Outcomes: int64(st.Outcomes), Capped: st.Capped, MaxDepth: st.MaxSteps})
	}
	r.Evaluations += st.Executions
	r.States += st.Executions
	r.Transitions += st.Steps
	r.Distinct += int64(st.Outcomes)
	if st.Capped != "" {
		r.Caps = append(r.Caps, st.Scenario+": "+st.Capped)
	}
	if st.Divergences > 0 {
		r.Caps = append(r.Caps, fmt.Sprintf("%s: %d subtrees dropped because the replayed prefix diverged (nondeterminism outside the harness, e.g. map iteration order)", st.Scenario, st.Divergences))
	}
	if len(r.Samples) < 6 {
		r.Samples = append(r.Samples, st.Samples...)
	}
	for _, v := range vs {
		r.Violations = append(r.Violations, Violation{Property: v.Property, Scenario: v.Scenario, Sig: v.Sig, Msg: v.Msg, Replays: v.Replays,
			Schedule: v.Schedule, Trace: v.Trace, Bound: v.Bound})
	}
}
