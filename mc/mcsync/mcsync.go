// Package mcsync stands in for package sync in the instrumented root package of gnet: blocking
// primitives are cooperative (a thread that cannot proceed parks in the scheduler instead of
// wedging the token holder inside the runtime) and keep their happens-before meaning by doing
// their state changes with the real sync/atomic. Pool and Map are the real ones.
package mcsync

import (
	real "sync"
	"sync/atomic"

	"github.com/panjf2000/gnet/v2/internal/verifmc/sched"
)

type (
	Pool   = real.Pool
	Map    = real.Map
	Locker = real.Locker
)

// Once mirrors sync.Once.
type Once struct {
	done    int32
	running int32
}

func (o *Once) Do(f func()) {
	for {
		if atomic.LoadInt32(&o.done) == 1 {
			return
		}
		if atomic.CompareAndSwapInt32(&o.running, 0, 1) {
			defer func() {
				atomic.StoreInt32(&o.done, 1)
			}()
			f()
			return
		}
		sched.Block()
	}
}

// Mutex mirrors sync.Mutex.
type Mutex struct{ v int32 }

func (m *Mutex) Lock() {
	sched.Point("mutex.lock", 0)
	for !atomic.CompareAndSwapInt32(&m.v, 0, 1) {
		sched.Block()
	}
}
func (m *Mutex) TryLock() bool { return atomic.CompareAndSwapInt32(&m.v, 0, 1) }
func (m *Mutex) Unlock() {
	if !atomic.CompareAndSwapInt32(&m.v, 1, 0) {
		panic("mcsync: unlock of unlocked mutex")
	}
	sched.Point("mutex.unlock", 0)
}

// RWMutex mirrors sync.RWMutex (writers and readers exclude each other; no writer preference).
type RWMutex struct {
	w int32
	r int32
}

func (m *RWMutex) Lock() {
	sched.Point("rwmutex.lock", 0)
	for {
		if atomic.CompareAndSwapInt32(&m.w, 0, 1) {
			if atomic.LoadInt32(&m.r) == 0 {
				return
			}
			atomic.StoreInt32(&m.w, 0)
		}
		sched.Block()
	}
}
func (m *RWMutex) Unlock() { atomic.StoreInt32(&m.w, 0); sched.Point("rwmutex.unlock", 0) }
func (m *RWMutex) RLock() {
	sched.Point("rwmutex.rlock", 0)
	for {
		if atomic.LoadInt32(&m.w) == 0 {
			atomic.AddInt32(&m.r, 1)
			if atomic.LoadInt32(&m.w) == 0 {
				return
			}
			atomic.AddInt32(&m.r, -1)
		}
		sched.Block()
	}
}
func (m *RWMutex) RUnlock() { atomic.AddInt32(&m.r, -1); sched.Point("rwmutex.runlock", 0) }

// WaitGroup mirrors sync.WaitGroup.
type WaitGroup struct{ n int32 }

func (w *WaitGroup) Add(d int) {
	if atomic.AddInt32(&w.n, int32(d)) < 0 {
		panic("mcsync: negative WaitGroup counter")
	}
	sched.Point("wg.add", 0)
}
func (w *WaitGroup) Done() { w.Add(-1) }
func (w *WaitGroup) Wait() {
	sched.BlockUntil(func() bool { return atomic.LoadInt32(&w.n) == 0 })
}
