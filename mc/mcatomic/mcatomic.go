// Package mcatomic mirrors the API of sync/atomic: every operation is a scheduling point
// (sched.Point) followed by the REAL sync/atomic operation, so the race detector still sees the
// program's own synchronisation. Swapped in for "sync/atomic" by the rewriter.
package mcatomic

import (
	"sync/atomic"
	"unsafe"

	"github.com/panjf2000/gnet/v2/internal/verifmc/sched"
)

//go:norace
func pt(kind string, p unsafe.Pointer) { sched.Point(kind, int64(uintptr(p))) }

//go:norace
func AddInt32(addr *int32, delta int32) int32 {
	pt("atomic.Add", unsafe.Pointer(addr))
	return atomic.AddInt32(addr, delta)
}

//go:norace
func LoadInt32(addr *int32) int32 {
	pt("atomic.Load", unsafe.Pointer(addr))
	return atomic.LoadInt32(addr)
}

//go:norace
func StoreInt32(addr *int32, val int32) {
	pt("atomic.Store", unsafe.Pointer(addr))
	atomic.StoreInt32(addr, val)
}

//go:norace
func SwapInt32(addr *int32, new int32) int32 {
	pt("atomic.Swap", unsafe.Pointer(addr))
	return atomic.SwapInt32(addr, new)
}

//go:norace
func CompareAndSwapInt32(addr *int32, old, new int32) bool {
	pt("atomic.CAS", unsafe.Pointer(addr))
	return atomic.CompareAndSwapInt32(addr, old, new)
}

// Int32 mirrors atomic.Int32.
type Int32 struct{ v atomic.Int32 }

//go:norace
func (x *Int32) Load() int32 { pt("atomic.Load", unsafe.Pointer(x)); return x.v.Load() }

//go:norace
func (x *Int32) Store(val int32) { pt("atomic.Store", unsafe.Pointer(x)); x.v.Store(val) }

//go:norace
func (x *Int32) Swap(new int32) int32 { pt("atomic.Swap", unsafe.Pointer(x)); return x.v.Swap(new) }

//go:norace
func (x *Int32) Add(delta int32) int32 { pt("atomic.Add", unsafe.Pointer(x)); return x.v.Add(delta) }

//go:norace
func (x *Int32) CompareAndSwap(old, new int32) bool {
	pt("atomic.CAS", unsafe.Pointer(x))
	return x.v.CompareAndSwap(old, new)
}

//go:norace
func AddInt64(addr *int64, delta int64) int64 {
	pt("atomic.Add", unsafe.Pointer(addr))
	return atomic.AddInt64(addr, delta)
}

//go:norace
func LoadInt64(addr *int64) int64 {
	pt("atomic.Load", unsafe.Pointer(addr))
	return atomic.LoadInt64(addr)
}

//go:norace
func StoreInt64(addr *int64, val int64) {
	pt("atomic.Store", unsafe.Pointer(addr))
	atomic.StoreInt64(addr, val)
}

//go:norace
func SwapInt64(addr *int64, new int64) int64 {
	pt("atomic.Swap", unsafe.Pointer(addr))
	return atomic.SwapInt64(addr, new)
}

//go:norace
func CompareAndSwapInt64(addr *int64, old, new int64) bool {
	pt("atomic.CAS", unsafe.Pointer(addr))
	return atomic.CompareAndSwapInt64(addr, old, new)
}

// Int64 mirrors atomic.Int64.
type Int64 struct{ v atomic.Int64 }

//go:norace
func (x *Int64) Load() int64 { pt("atomic.Load", unsafe.Pointer(x)); return x.v.Load() }

//go:norace
func (x *Int64) Store(val int64) { pt("atomic.Store", unsafe.Pointer(x)); x.v.Store(val) }

//go:norace
func (x *Int64) Swap(new int64) int64 { pt("atomic.Swap", unsafe.Pointer(x)); return x.v.Swap(new) }

//go:norace
func (x *Int64) Add(delta int64) int64 { pt("atomic.Add", unsafe.Pointer(x)); return x.v.Add(delta) }

//go:norace
func (x *Int64) CompareAndSwap(old, new int64) bool {
	pt("atomic.CAS", unsafe.Pointer(x))
	return x.v.CompareAndSwap(old, new)
}

//go:norace
func AddUint32(addr *uint32, delta uint32) uint32 {
	pt("atomic.Add", unsafe.Pointer(addr))
	return atomic.AddUint32(addr, delta)
}

//go:norace
func LoadUint32(addr *uint32) uint32 {
	pt("atomic.Load", unsafe.Pointer(addr))
	return atomic.LoadUint32(addr)
}

//go:norace
func StoreUint32(addr *uint32, val uint32) {
	pt("atomic.Store", unsafe.Pointer(addr))
	atomic.StoreUint32(addr, val)
}

//go:norace
func SwapUint32(addr *uint32, new uint32) uint32 {
	pt("atomic.Swap", unsafe.Pointer(addr))
	return atomic.SwapUint32(addr, new)
}

//go:norace
func CompareAndSwapUint32(addr *uint32, old, new uint32) bool {
	pt("atomic.CAS", unsafe.Pointer(addr))
	return atomic.CompareAndSwapUint32(addr, old, new)
}

// Uint32 mirrors atomic.Uint32.
type Uint32 struct{ v atomic.Uint32 }

//go:norace
func (x *Uint32) Load() uint32 { pt("atomic.Load", unsafe.Pointer(x)); return x.v.Load() }

//go:norace
func (x *Uint32) Store(val uint32) { pt("atomic.Store", unsafe.Pointer(x)); x.v.Store(val) }

//go:norace
func (x *Uint32) Swap(new uint32) uint32 { pt("atomic.Swap", unsafe.Pointer(x)); return x.v.Swap(new) }

//go:norace
func (x *Uint32) Add(delta uint32) uint32 { pt("atomic.Add", unsafe.Pointer(x)); return x.v.Add(delta) }

//go:norace
func (x *Uint32) CompareAndSwap(old, new uint32) bool {
	pt("atomic.CAS", unsafe.Pointer(x))
	return x.v.CompareAndSwap(old, new)
}

//go:norace
func AddUint64(addr *uint64, delta uint64) uint64 {
	pt("atomic.Add", unsafe.Pointer(addr))
	return atomic.AddUint64(addr, delta)
}

//go:norace
func LoadUint64(addr *uint64) uint64 {
	pt("atomic.Load", unsafe.Pointer(addr))
	return atomic.LoadUint64(addr)
}

//go:norace
func StoreUint64(addr *uint64, val uint64) {
	pt("atomic.Store", unsafe.Pointer(addr))
	atomic.StoreUint64(addr, val)
}

//go:norace
func SwapUint64(addr *uint64, new uint64) uint64 {
	pt("atomic.Swap", unsafe.Pointer(addr))
	return atomic.SwapUint64(addr, new)
}

//go:norace
func CompareAndSwapUint64(addr *uint64, old, new uint64) bool {
	pt("atomic.CAS", unsafe.Pointer(addr))
	return atomic.CompareAndSwapUint64(addr, old, new)
}

// Uint64 mirrors atomic.Uint64.
type Uint64 struct{ v atomic.Uint64 }

//go:norace
func (x *Uint64) Load() uint64 { pt("atomic.Load", unsafe.Pointer(x)); return x.v.Load() }

//go:norace
func (x *Uint64) Store(val uint64) { pt("atomic.Store", unsafe.Pointer(x)); x.v.Store(val) }

//go:norace
func (x *Uint64) Swap(new uint64) uint64 { pt("atomic.Swap", unsafe.Pointer(x)); return x.v.Swap(new) }

//go:norace
func (x *Uint64) Add(delta uint64) uint64 { pt("atomic.Add", unsafe.Pointer(x)); return x.v.Add(delta) }

//go:norace
func (x *Uint64) CompareAndSwap(old, new uint64) bool {
	pt("atomic.CAS", unsafe.Pointer(x))
	return x.v.CompareAndSwap(old, new)
}

//go:norace
func AddUintptr(addr *uintptr, delta uintptr) uintptr {
	pt("atomic.Add", unsafe.Pointer(addr))
	return atomic.AddUintptr(addr, delta)
}

//go:norace
func LoadUintptr(addr *uintptr) uintptr {
	pt("atomic.Load", unsafe.Pointer(addr))
	return atomic.LoadUintptr(addr)
}

//go:norace
func StoreUintptr(addr *uintptr, val uintptr) {
	pt("atomic.Store", unsafe.Pointer(addr))
	atomic.StoreUintptr(addr, val)
}

//go:norace
func SwapUintptr(addr *uintptr, new uintptr) uintptr {
	pt("atomic.Swap", unsafe.Pointer(addr))
	return atomic.SwapUintptr(addr, new)
}

//go:norace
func CompareAndSwapUintptr(addr *uintptr, old, new uintptr) bool {
	pt("atomic.CAS", unsafe.Pointer(addr))
	return atomic.CompareAndSwapUintptr(addr, old, new)
}

// Uintptr mirrors atomic.Uintptr.
type Uintptr struct{ v atomic.Uintptr }

//go:norace
func (x *Uintptr) Load() uintptr { pt("atomic.Load", unsafe.Pointer(x)); return x.v.Load() }

//go:norace
func (x *Uintptr) Store(val uintptr) { pt("atomic.Store", unsafe.Pointer(x)); x.v.Store(val) }

//go:norace
func (x *Uintptr) Swap(new uintptr) uintptr {
	pt("atomic.Swap", unsafe.Pointer(x))
	return x.v.Swap(new)
}

//go:norace
func (x *Uintptr) Add(delta uintptr) uintptr {
	pt("atomic.Add", unsafe.Pointer(x))
	return x.v.Add(delta)
}

//go:norace
func (x *Uintptr) CompareAndSwap(old, new uintptr) bool {
	pt("atomic.CAS", unsafe.Pointer(x))
	return x.v.CompareAndSwap(old, new)
}

//go:norace
func LoadPointer(addr *unsafe.Pointer) unsafe.Pointer {
	pt("atomic.Load", unsafe.Pointer(addr))
	return atomic.LoadPointer(addr)
}

//go:norace
func StorePointer(addr *unsafe.Pointer, val unsafe.Pointer) {
	pt("atomic.Store", unsafe.Pointer(addr))
	atomic.StorePointer(addr, val)
}

//go:norace
func SwapPointer(addr *unsafe.Pointer, new unsafe.Pointer) unsafe.Pointer {
	pt("atomic.Swap", unsafe.Pointer(addr))
	return atomic.SwapPointer(addr, new)
}

//go:norace
func CompareAndSwapPointer(addr *unsafe.Pointer, old, new unsafe.Pointer) bool {
	pt("atomic.CAS", unsafe.Pointer(addr))
	return atomic.CompareAndSwapPointer(addr, old, new)
}

// Bool mirrors atomic.Bool.
type Bool struct{ v atomic.Bool }

//go:norace
func (x *Bool) Load() bool { pt("atomic.Load", unsafe.Pointer(x)); return x.v.Load() }

//go:norace
func (x *Bool) Store(val bool) { pt("atomic.Store", unsafe.Pointer(x)); x.v.Store(val) }

//go:norace
func (x *Bool) Swap(new bool) bool {
	pt("atomic.Swap", unsafe.Pointer(x))
	return x.v.Swap(new)
}

//go:norace
func (x *Bool) CompareAndSwap(old, new bool) bool {
	pt("atomic.CAS", unsafe.Pointer(x))
	return x.v.CompareAndSwap(old, new)
}

// Pointer mirrors atomic.Pointer[T].
type Pointer[T any] struct{ v atomic.Pointer[T] }

//go:norace
func (x *Pointer[T]) Load() *T { pt("atomic.Load", unsafe.Pointer(x)); return x.v.Load() }

//go:norace
func (x *Pointer[T]) Store(val *T) { pt("atomic.Store", unsafe.Pointer(x)); x.v.Store(val) }

//go:norace
func (x *Pointer[T]) Swap(new *T) *T {
	pt("atomic.Swap", unsafe.Pointer(x))
	return x.v.Swap(new)
}

//go:norace
func (x *Pointer[T]) CompareAndSwap(old, new *T) bool {
	pt("atomic.CAS", unsafe.Pointer(x))
	return x.v.CompareAndSwap(old, new)
}

// Value mirrors atomic.Value.
type Value struct{ v atomic.Value }

//go:norace
func (x *Value) Load() any { pt("atomic.Load", unsafe.Pointer(x)); return x.v.Load() }

//go:norace
func (x *Value) Store(val any) { pt("atomic.Store", unsafe.Pointer(x)); x.v.Store(val) }

//go:norace
func (x *Value) Swap(new any) any {
	pt("atomic.Swap", unsafe.Pointer(x))
	return x.v.Swap(new)
}

//go:norace
func (x *Value) CompareAndSwap(old, new any) bool {
	pt("atomic.CAS", unsafe.Pointer(x))
	return x.v.CompareAndSwap(old, new)
}
