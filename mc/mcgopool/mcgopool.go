// Package mcgopool stands in for gnet's goroutine pool (ants): submitted tasks become scheduler
// threads, because the ants workers are goroutines the scheduler would not own.
package mcgopool

import "github.com/panjf2000/gnet/v2/internal/verifmc/sched"

type Pool struct{}

var DefaultWorkerPool = &Pool{}

func Default() *Pool { return DefaultWorkerPool }

func (p *Pool) Submit(task func()) error {
	sched.Go("worker", task)
	return nil
}

func (p *Pool) Release() {}
