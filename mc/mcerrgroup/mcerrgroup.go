// Package mcerrgroup stands in for golang.org/x/sync/errgroup: Go spawns a scheduler thread,
// Wait is a scheduler-visible blocking point; the derived context is a real context.
package mcerrgroup

import (
	"context"
	"sync"
	"sync/atomic"

	"github.com/panjf2000/gnet/v2/internal/verifmc/sched"
)

// Spawned counts threads started through any Group (used by harness oracles).
var Spawned int32

type Group struct {
	cancel  context.CancelFunc
	live    int32
	errOnce sync.Once
	err     error
}

func WithContext(ctx context.Context) (*Group, context.Context) {
	ctx, cancel := context.WithCancel(ctx)
	return &Group{cancel: cancel}, ctx
}

func (g *Group) Go(f func() error) {
	atomic.AddInt32(&g.live, 1)
	atomic.AddInt32(&Spawned, 1)
	sched.Go("loop", func() {
		defer atomic.AddInt32(&g.live, -1)
		if err := f(); err != nil {
			g.errOnce.Do(func() {
				g.err = err
				if g.cancel != nil {
					g.cancel()
				}
			})
		}
	})
}

func (g *Group) Wait() error {
	sched.BlockUntil(func() bool { return atomic.LoadInt32(&g.live) == 0 })
	if g.cancel != nil {
		g.cancel()
	}
	return g.err
}
