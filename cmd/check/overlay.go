package main

import (
	"encoding/json"
	"fmt"
	"os"
	"path/filepath"
	"regexp"
	"strings"
)

// scaleGfd builds the scaled-geometry variant of internal/gfd/gfd.go for C14: a copy of the
// CURRENT file in which only the two lines defining ConnMatrixRowMax / ConnMatrixColumnMax are
// replaced. Anything else stays as it is in the working tree.
func scaleGfd(dir string, u Unit, repl map[string]string) error {
	src := filepath.Join(repoDir, "internal", "gfd", "gfd.go")
	b, err := os.ReadFile(src)
	if err != nil {
		return err
	}
	reRow := regexp.MustCompile(`(?m)^(\s*ConnMatrixRowMax\s*=).*$`)
	reCol := regexp.MustCompile(`(?m)^(\s*ConnMatrixColumnMax\s*=).*$`)
	if len(reRow.FindAll(b, -1)) != 1 || len(reCol.FindAll(b, -1)) != 1 {
		return fmt.Errorf("scaled geometry: cannot find exactly one definition of ConnMatrixRowMax/ConnMatrixColumnMax in %s", src)
	}
	out := reRow.ReplaceAll(b, []byte(fmt.Sprintf("${1} %d", u.GfdGeometry[0])))
	out = reCol.ReplaceAll(out, []byte(fmt.Sprintf("${1} %d", u.GfdGeometry[1])))
	dst := filepath.Join(dir, "gfd_scaled.go")
	if err := os.WriteFile(dst, out, 0o644); err != nil {
		return err
	}
	repl[src] = dst
	return nil
}

// makeOverlay writes overlay.json for one unit into dir and returns its path.
//   - every /verif/harness/<pkg>/*_mc_test.go is mapped to /repo/<pkg>/zz_<name>
//   - every /verif/mc/<p>/*.go is mapped to /repo/internal/verifmc/<p>/<name>
//   - gnet's own _test.go files of the unit's package are hidden (they are not run and only
//     slow the build down / pull in test-only init code)
//   - for instrumented units the rewriter's output replaces the engine files
func makeOverlay(dir string, u Unit) (string, error) {
	repl := map[string]string{}
	hroot := filepath.Join(verifDir, "harness")
	err := filepath.Walk(hroot, func(p string, info os.FileInfo, err error) error {
		if err != nil || info.IsDir() {
			return err
		}
		if !strings.HasSuffix(p, "_mc_test.go") {
			return nil
		}
		rel, _ := filepath.Rel(hroot, p)
		d, f := filepath.Split(rel)
		if d == "root/" {
			d = ""
		}
		repl[filepath.Join(repoDir, d, "zz_"+f)] = p
		return nil
	})
	if err != nil {
		return "", err
	}
	mroot := filepath.Join(verifDir, "mc")
	err = filepath.Walk(mroot, func(p string, info os.FileInfo, err error) error {
		if err != nil || info.IsDir() {
			return err
		}
		if !strings.HasSuffix(p, ".go") {
			return nil
		}
		rel, _ := filepath.Rel(mroot, p)
		repl[filepath.Join(repoDir, "internal", "verifmc", rel)] = p
		return nil
	})
	if err != nil {
		return "", err
	}
	// hide gnet's own tests in the unit's package
	pdir := filepath.Join(repoDir, u.Pkg)
	ents, err := os.ReadDir(pdir)
	if err != nil {
		return "", err
	}
	for _, e := range ents {
		n := e.Name()
		if u.KeepRepoTests {
			break
		}
		if strings.HasSuffix(n, "_test.go") && !strings.HasPrefix(n, "zz_") {
			repl[filepath.Join(pdir, n)] = ""
		}
	}
	if u.Instrument {
		if err := instrument(dir, u, repl); err != nil {
			return "", err
		}
	}
	if u.GfdGeometry[0] > 0 {
		if err := scaleGfd(dir, u, repl); err != nil {
			return "", err
		}
	}
	for k, v := range u.ExtraOverlay {
		repl[filepath.Join(repoDir, k)] = v
	}
	b, _ := json.MarshalIndent(map[string]interface{}{"Replace": repl}, "", " ")
	ov := filepath.Join(dir, "overlay.json")
	return ov, os.WriteFile(ov, b, 0o644)
}
