package main

import (
	"encoding/json"
	"os"
	"path/filepath"
	"strings"
)

// makeOverlay writes overlay.json for one unit into dir and returns its path.
//   - every /verif/harness/<pkg>/*_mc_test.go is mapped to /repo/<pkg>/zz_<name>
//   - every /verif/mc/<p>/*.go is mapped to /repo/internal/verifmc/<p>/<name>
//   - gnet's own _test.go files of the unit's package are hidden (they are not run and only
//     slow the build down / pull in test-only init code)
//   - for instrumented units the rewriter's output replaces the engine files
func makeOverlay(dir string, u Unit) (string, error) {
	repl := map[string]string{}
	hroot := filepath.Join(verifDir, "harness")
	err := filepath.Walk(hroot, func(p string, info os.FileInfo, err error) error {
		if err != nil || info.IsDir() {
			return err
		}
		if !strings.HasSuffix(p, "_mc_test.go") {
			return nil
		}
		rel, _ := filepath.Rel(hroot, p)
		d, f := filepath.Split(rel)
		if d == "root/" {
			d = ""
		}
		repl[filepath.Join(repoDir, d, "zz_"+f)] = p
		return nil
	})
	if err != nil {
		return "", err
	}
	mroot := filepath.Join(verifDir, "mc")
	err = filepath.Walk(mroot, func(p string, info os.FileInfo, err error) error {
		if err != nil || info.IsDir() {
			return err
		}
		if !strings.HasSuffix(p, ".go") {
			return nil
		}
		rel, _ := filepath.Rel(mroot, p)
		repl[filepath.Join(repoDir, "internal", "verifmc", rel)] = p
		return nil
	})
	if err != nil {
		return "", err
	}
	// hide gnet's own tests in the unit's package
	pdir := filepath.Join(repoDir, u.Pkg)
	ents, err := os.ReadDir(pdir)
	if err != nil {
		return "", err
	}
	for _, e := range ents {
		n := e.Name()
		if strings.HasSuffix(n, "_test.go") && !strings.HasPrefix(n, "zz_") {
			repl[filepath.Join(pdir, n)] = ""
		}
	}
	if u.Instrument {
		if err := instrument(dir, u, repl); err != nil {
			return "", err
		}
	}
	for k, v := range u.ExtraOverlay {
		repl[filepath.Join(repoDir, k)] = v
	}
	b, _ := json.MarshalIndent(map[string]interface{}{"Replace": repl}, "", " ")
	ov := filepath.Join(dir, "overlay.json")
	return ov, os.WriteFile(ov, b, 0o644)
}
