package main

// Unit is one test binary (package + build tags + instrumentation) and the test function that
// drives the exploration.
type Unit struct {
	Name            string
	Pkg             string // directory relative to /repo ("." for the root package)
	Tags            string
	Race            bool
	Instrument      bool   // run the rewriter (import swaps, blocking constructs) over the engine packages
	Test            string // test function name
	Tier            string // "" = both tiers, "thorough" = only in the thorough tier
	Shards          int
	ShardsThorough  int
	Weight          int // CPU slots one shard occupies (in-process parallel searches use many)
	BudgetQuick     int // internal deadline in seconds handed to the harness (0 = none)
	BudgetThorough  int
	Env             []string
	ExtraOverlay    map[string]string
	GfdGeometry     [2]int   // rows, columns of the scaled connMatrix geometry (C14), 0 = real
	InstrPkgs       []string // packages the rewriter instruments (default: the engine packages)
	RewriteAllChans bool
	KeepRepoTests   bool // do not hide gnet's own _test.go files (pass-through conformance run)
}

// Check is one property.
type Check struct {
	ID          string
	Level       string
	Rule        string
	Assumptions []string
	Units       []Unit
}

var commonAssumptions = []string{
	"linux/amd64, go1.23.5, this sandbox's kernel; kqueue/BSD/Windows files are not built",
	"bounds are bounds: coverage is complete only up to the bounds listed in coverage.bounds_completed",
	"the harness, the explorer packages under /verif/mc and the Go toolchain are trusted",
}

func checks() []Check {
	return []Check{
		{ID: "DEBUG", Level: "model_checking", Rule: "debug", Assumptions: commonAssumptions,
			Units: []Unit{{Name: "debug", Pkg: ".", Tags: "verifmc", Test: "TestMC_Debug", Instrument: true, Env: []string{"GOMAXPROCS=2"}}}},
		// CONF: "trusting the rewriter" (DESIGN §1.3): gnet's own tests run on the INSTRUMENTED tree with
		// no scheduler attached (every shim passes straight through); not a property check.
		{ID: "CONF", Level: "other", Rule: "pass-through conformance of the instrumented tree", Assumptions: commonAssumptions,
			Units: []Unit{{Name: "conformance", Pkg: ".", Tags: "verifmc", Test: "(TestServer|TestEngineStop|TestWakeConn|TestCloseConnection|TestShutdown|TestTick|TestClient|TestStopServer|TestClosedWakeUp|TestDisconnectedAsyncWrite|TestCloseActionError|TestShutdownActionError|TestCloseActionOnOpen|TestShutdownActionOnOpen)", Instrument: true, KeepRepoTests: true}}},
		{ID: "SMOKE", Level: "model_checking", Rule: "smoke", Assumptions: commonAssumptions,
			Units: []Unit{{Name: "smoke", Pkg: ".", Tags: "verifmc", Test: "TestMC_Smoke", Instrument: true, Env: []string{"GOMAXPROCS=2"}}}},
		{
			ID: "C12", Level: "model_checking",
			Rule: "explicit-state BFS over Get/Put/PutForeign/GC sequences on a fresh byteslice.Pool with an address ledger (every array ever seen is kept alive, so addresses identify memory), and over Get/Write/Put/GC on a fresh ringbuffer.Pool; a state is distinct by (outstanding slices len/cap in Get order, pooled regions cap/age in Put order, GC count)",
			Assumptions: append([]string{"each process is single-threaded (GOMAXPROCS=1): every pool operation performs exactly one sync.Pool call, so goroutine interleavings reduce to operation sequences; data races are C05's business",
				"size classes >= 2^27 are not allocated (covered by the index arithmetic of C20)"}, commonAssumptions...),
			Units: []Unit{
				{Name: "byteslice", Pkg: "pkg/pool/byteslice", Test: "TestMC_C12", Shards: 16, BudgetQuick: 240, BudgetThorough: 1500, Env: []string{"GOMAXPROCS=1"}},
				{Name: "ringbuffer", Pkg: "pkg/pool/ringbuffer", Test: "TestMC_C12rb", BudgetQuick: 240, BudgetThorough: 1500, Env: []string{"GOMAXPROCS=1"}},
			},
		},
		{
			ID: "C03", Level: "model_checking",
			Rule:        "stateless model checking of the real netpoll.Poller (default and poll_opt variants) on a real epoll instance/eventfd: every interleaving up to a preemption bound of one polling loop with 1..3 producers calling Trigger; scheduling points at every atomic, queue operation and system call; an execution is one evaluation; oracle at quiescence (loop parked in epoll_wait, producers returned): every accepted task ran exactly once on the loop thread, high-priority tasks of one producer in issue order, and the loop is still wakeable",
			Assumptions: append([]string{"sequentially consistent interleavings; fairness rotation after 60 consecutive steps", "epoll/eventfd behaviour is that of this kernel; enabledness of epoll_wait is decided by poll(2) on the epoll descriptor"}, commonAssumptions...),
			Units: []Unit{
				{Name: "poller-default", Pkg: "pkg/netpoll", Test: "TestMC_C03", Instrument: true, InstrPkgs: []string{"pkg/netpoll", "pkg/queue"}, Shards: 12, ShardsThorough: 15, BudgetQuick: 200, BudgetThorough: 1500, Env: []string{"GOMAXPROCS=2"}},
				{Name: "engine-seam", Test: "TestMC_C03seam", Pkg: ".", Tags: "verifmc", Instrument: true, Shards: 16, BudgetQuick: 150, BudgetThorough: 1500, Env: []string{"GOMAXPROCS=2"}}, {Name: "engine-seam-poll_opt", Test: "TestMC_C03seam", Pkg: ".", Tags: "verifmc,poll_opt", Tier: "thorough", Instrument: true, Shards: 16, BudgetQuick: 150, BudgetThorough: 600, Env: []string{"GOMAXPROCS=2"}}, {Name: "engine-seam-poll_opt-quick", Test: "TestMC_C03seam", Pkg: ".", Tags: "verifmc,poll_opt", Instrument: true, Shards: 8, BudgetQuick: 150, BudgetThorough: 1500, Env: []string{"GOMAXPROCS=2", "MC_LIGHT=1"}}, {Name: "engine-seam-gc_opt-quick", Test: "TestMC_C03seam", Pkg: ".", Tags: "verifmc,gc_opt", Instrument: true, Shards: 8, BudgetQuick: 150, BudgetThorough: 1500, Env: []string{"GOMAXPROCS=2", "MC_LIGHT=1"}}, {Name: "engine-seam-gc_opt", Test: "TestMC_C03seam", Pkg: ".", Tags: "verifmc,gc_opt", Tier: "thorough", Instrument: true, Shards: 16, BudgetQuick: 150, BudgetThorough: 600, Env: []string{"GOMAXPROCS=2"}},
				{Name: "poller-poll_opt", Pkg: "pkg/netpoll", Tags: "poll_opt", Test: "TestMC_C03", Instrument: true, InstrPkgs: []string{"pkg/netpoll", "pkg/queue"}, Shards: 12, ShardsThorough: 15, BudgetQuick: 200, BudgetThorough: 1500, Env: []string{"GOMAXPROCS=2"}},
			},
		},
		{
			ID: "C13", Level: "model_checking",
			Rule:        "stateless model checking: every interleaving (up to a preemption bound, iterated) of small thread configurations calling Enqueue/Dequeue on the real lockFreeQueue, with every atomic load/CAS/add a scheduling point; an execution is one evaluation; distinct_nontrivial = distinct observed dequeue-result vectors summed over configurations; each history is checked for linearizability against the sequential FIFO by brute force",
			Assumptions: append([]string{"sequentially consistent interleavings (Go atomics are SC); non-atomic accesses are C05's business", "fairness: after 60 consecutive steps of one thread while another is enabled the scheduler rotates (cuts only unfair infinite executions)"}, commonAssumptions...),
			Units:       []Unit{{Name: "queue", Pkg: "pkg/queue", Test: "TestMC_C13", Instrument: true, InstrPkgs: []string{"pkg/queue"}, Shards: 11, ShardsThorough: 15, BudgetQuick: 200, BudgetThorough: 1500, Env: []string{"GOMAXPROCS=2"}}},
		},
		{
			ID: "C14", Level: "model_checking",
			Rule: "explicit-state BFS over add/del/lookup/iterate(+del) sequences on the real connMatrix of both build variants (map; gc_opt matrix with real and with scaled geometry); a state is distinct by the registry's full internal layout (which descriptor sits in which slot, next free slot); every transition compared with a map[int]*conn reference incl. lookups of all descriptors, count, visit-exactly-once and the stored indexes of every live connection",
			Assumptions: append([]string{"scaled geometry = the current internal/gfd/gfd.go with only ConnMatrixRowMax/ConnMatrixColumnMax replaced (4x2, 4x4), so that all table layouts across row boundaries are enumerable; the real geometry is covered by depth-bounded search and scripted 65538-connection populations",
				"removal of a descriptor that is not registered and registration of an already registered descriptor are outside the alphabet (the engine never does either)"}, commonAssumptions...),
			Units: []Unit{
				{Name: "map", Pkg: ".", Test: "TestMC_C14", Weight: 8, BudgetQuick: 200, BudgetThorough: 1500},
				{Name: "matrix-real", Pkg: ".", Tags: "gc_opt", Test: "TestMC_C14", Weight: 8, BudgetQuick: 200, BudgetThorough: 1500},
				{Name: "matrix-4x2", Pkg: ".", Tags: "gc_opt", Test: "TestMC_C14", Weight: 8, BudgetQuick: 200, BudgetThorough: 1500, GfdGeometry: [2]int{4, 2}, Env: []string{"MC_C14_FDS=7"}},
				{Name: "matrix-4x4", Pkg: ".", Tags: "gc_opt", Test: "TestMC_C14", Weight: 8, BudgetQuick: 200, BudgetThorough: 1500, GfdGeometry: [2]int{4, 4}, Env: []string{"MC_C14_FDS=6"}},
			},
		},
		{
			ID: "C15", Level: "model_checking",
			Rule:        "policy part: round-robin for every N in 1..256 (3N accepts), least-connections as explicit-state BFS over accept/close sequences on fake loops with real connection counters plus every count vector in {0..3}^N, source-addr-hash for every N in 1..256 over an address alphabet; distinct_nontrivial = distinct (policy, N, count-vector/address) cases",
			Assumptions: append([]string{"fake event loops: only the registry counters are real; the live clause (callbacks run on the assigned loop) is checked by the engine-level unit"}, commonAssumptions...),
			Units: []Unit{{Name: "policy", Pkg: ".", Test: "TestMC_C15", Weight: 8},
				{Name: "live", Test: "TestMC_C15live", Pkg: ".", Tags: "verifmc", Instrument: true, Shards: 16, BudgetQuick: 150, BudgetThorough: 1500, Env: []string{"GOMAXPROCS=2"}}, {Name: "live-poll_opt", Test: "TestMC_C15live", Pkg: ".", Tags: "verifmc,poll_opt", Tier: "thorough", Instrument: true, Shards: 16, BudgetQuick: 150, BudgetThorough: 600, Env: []string{"GOMAXPROCS=2"}}, {Name: "live-gc_opt", Test: "TestMC_C15live", Pkg: ".", Tags: "verifmc,gc_opt", Tier: "thorough", Instrument: true, Shards: 16, BudgetQuick: 150, BudgetThorough: 600, Env: []string{"GOMAXPROCS=2"}}},
		},
		{
			ID: "C16", Level: "exploration",
			Rule:        "bounded-exhaustive enumeration: every string up to a length over a 20-symbol alphabet behind 5 prefixes, every derivation of an address grammar, every integer option value of the stated ranges through createListeners and NewClient; distinct_nontrivial = distinct inputs (each enumerated input is distinct)",
			Assumptions: append([]string{"malformed strings not pinned down by the statement may fail with any error (as gnet's own tests accept)", "capacities above 2^62 are outside the domain (no power of two fits an int)"}, commonAssumptions...),
			Units:       []Unit{{Name: "parse", Pkg: ".", Test: "TestMC_C16", Weight: 16}},
		},
		{
			ID: "C17", Level: "exploration",
			Rule:        "conversion part: bounded-exhaustive enumeration of {tcp,udp,ip} x IP alphabet x all 65536 ports x zone alphabet, unix names x networks, and the zone index round trip for every index of a range; distinct_nontrivial = distinct inputs; live part (RemoteAddr/LocalAddr at every callback under churn) by the engine-level unit",
			Assumptions: append([]string{"zones are compared by the interface index they denote on this host (lo=1, eth0=4); indices >= 2^24-1 are outside the domain (the decimal parser caps there)", "a nil IP and the unspecified address are the same address"}, commonAssumptions...),
			Units: []Unit{{Name: "conv", Pkg: "pkg/socket", Test: "TestMC_C17conv", Weight: 2},
				{Name: "live", Test: "TestMC_C17live", Pkg: ".", Tags: "verifmc", Instrument: true, Shards: 16, BudgetQuick: 150, BudgetThorough: 1500, Env: []string{"GOMAXPROCS=2"}}, {Name: "live-poll_opt", Test: "TestMC_C17live", Pkg: ".", Tags: "verifmc,poll_opt", Tier: "thorough", Instrument: true, Shards: 16, BudgetQuick: 150, BudgetThorough: 600, Env: []string{"GOMAXPROCS=2"}}, {Name: "live-gc_opt", Test: "TestMC_C17live", Pkg: ".", Tags: "verifmc,gc_opt", Tier: "thorough", Instrument: true, Shards: 16, BudgetQuick: 150, BudgetThorough: 600, Env: []string{"GOMAXPROCS=2"}}},
		},
		{
			ID: "C18", Level: "fault_enumeration",
			Rule:        "exhaustive single-fault (and, thorough, double-fault / fault+schedule-deviation) enumeration on the real engine: for every call index of every I/O-path system-call site the shim offers each errno of a realistic set as a deviation; an execution with one injected fault is one evaluation; distinct_nontrivial = distinct observed (callback multiset, peer byte counts) outcomes; oracle: no panic, engine serves a fresh probe connection, the non-victim connection completes its checked echo exchange and closes normally, the victim sees exactly one OnClose with a non-nil error iff it was opened, its bytes are a prefix of the echo, its descriptor is released, retryable conditions change nothing",
			Assumptions: append([]string{"errno menu per site: read ECONNRESET/ETIMEDOUT/EAGAIN(LT); write,writev EPIPE/ECONNRESET/EAGAIN(LT); accept4 EINTR/ECONNABORTED/ECONNRESET; epoll_ctl add ENOMEM, mod ENOENT/ENOMEM, del ENOENT/EBADF; close EINTR (after really closing); epoll_wait EINTR", "faults on the eventfd and on listeners' registration are not injected"}, commonAssumptions...),
			Units:       []Unit{{Name: "faults", Pkg: ".", Tags: "verifmc", Test: "TestMC_C18", Instrument: true, Shards: 16, BudgetQuick: 150, BudgetThorough: 1500, Env: []string{"GOMAXPROCS=2"}}, {Name: "faults-poll_opt", Pkg: ".", Tags: "verifmc,poll_opt", Tier: "thorough", Test: "TestMC_C18", Instrument: true, Shards: 16, BudgetQuick: 150, BudgetThorough: 600, Env: []string{"GOMAXPROCS=2"}}, {Name: "faults-poll_opt-quick", Pkg: ".", Tags: "verifmc,poll_opt", Test: "TestMC_C18", Instrument: true, Shards: 8, BudgetQuick: 150, BudgetThorough: 1500, Env: []string{"GOMAXPROCS=2", "MC_LIGHT=1"}}, {Name: "faults-gc_opt-quick", Pkg: ".", Tags: "verifmc,gc_opt", Test: "TestMC_C18", Instrument: true, Shards: 8, BudgetQuick: 150, BudgetThorough: 1500, Env: []string{"GOMAXPROCS=2", "MC_LIGHT=1"}}, {Name: "faults-gc_opt", Pkg: ".", Tags: "verifmc,gc_opt", Tier: "thorough", Test: "TestMC_C18", Instrument: true, Shards: 16, BudgetQuick: 150, BudgetThorough: 600, Env: []string{"GOMAXPROCS=2"}}},
		},
		{
			ID: "C19", Level: "model_checking",
			Rule:        "stateless model checking of the real engine's control API: the zero Engine handle; sequences of control calls chosen from a 10-call alphabet (Choose points, deviation-bounded) issued while running, during shutdown (second thread) and after shutdown, every schedule within the delay bound; reference state machine {empty, running, stopping, stopped} gives the expected error class of each call; Stop returning nil is checked against the ledger (pollers and listeners closed, OnShutdown ran); Register delivers exactly one result; Register with an injected epoll_ctl(ADD) failure must deliver an error",
			Assumptions: append([]string{"Engine.Register is exercised with LeastConnections balancing only (its documentation excludes RoundRobin)", "contexts are cancelled explicitly (no wall-clock timeouts)"}, commonAssumptions...),
			Units:       []Unit{{Name: "control", Pkg: ".", Tags: "verifmc", Test: "TestMC_C19", Instrument: true, Shards: 16, BudgetQuick: 150, BudgetThorough: 1500, Env: []string{"GOMAXPROCS=2"}}, {Name: "control-poll_opt", Pkg: ".", Tags: "verifmc,poll_opt", Tier: "thorough", Test: "TestMC_C19", Instrument: true, Shards: 16, BudgetQuick: 150, BudgetThorough: 600, Env: []string{"GOMAXPROCS=2"}}, {Name: "control-poll_opt-quick", Pkg: ".", Tags: "verifmc,poll_opt", Test: "TestMC_C19", Instrument: true, Shards: 8, BudgetQuick: 150, BudgetThorough: 1500, Env: []string{"GOMAXPROCS=2", "MC_LIGHT=1"}}, {Name: "control-gc_opt-quick", Pkg: ".", Tags: "verifmc,gc_opt", Test: "TestMC_C19", Instrument: true, Shards: 8, BudgetQuick: 150, BudgetThorough: 1500, Env: []string{"GOMAXPROCS=2", "MC_LIGHT=1"}}, {Name: "control-gc_opt", Pkg: ".", Tags: "verifmc,gc_opt", Tier: "thorough", Test: "TestMC_C19", Instrument: true, Shards: 16, BudgetQuick: 150, BudgetThorough: 600, Env: []string{"GOMAXPROCS=2"}}},
		},
		{
			ID: "C20", Level: "exploration",
			Rule:        "bounded-exhaustive enumeration of the integer domain (every int of the stated ranges, all power-of-two neighbourhoods up to 2^62); expectations derived from interval enumeration (loop-based reference); distinct_nontrivial = distinct inputs > 2 (math) / all inputs (index, gfd), counted",
			Assumptions: commonAssumptions,
			Units: []Unit{
				{Name: "math", Pkg: "pkg/math", Test: "TestMC_C20", Weight: 16},
				{Name: "bsindex", Pkg: "pkg/pool/byteslice", Test: "TestMC_C20idx", Weight: 16}, {Name: "rbindex", Pkg: "pkg/pool/ringbuffer", Test: "TestMC_C20rbidx"},
				{Name: "gfd", Pkg: "internal/gfd", Test: "TestMC_C20gfd", Weight: 1},
			},
		},
		{
			ID: "C01", Level: "model_checking",
			Rule:        "stateless model checking of the real engine on unix sockets: for each (LT|ET|ET+chunk, segmentation, FIN placement) every schedule within a delay bound x every per-callback consumption choice (13 operations, optional second step) and LT short-read deviation within a deviation bound; positional content oracle (byte i of the stream is a function of i), accounting consumed+InboundBuffered == bytes read(2) (ledger) at every step, views intact until the next read call, everything offered before OnClose(EOF), nothing left unread at quiescence",
			Assumptions: append([]string{"AF_UNIX stream sockets; read buffer 1024 so that 500+600 wraps and 1500 grows the leftover ring", "short reads are injected in LT mode only (ET legitimately treats a short read as drained)"}, commonAssumptions...),
			Units:       []Unit{{Name: "inbound", Pkg: ".", Tags: "verifmc", Test: "TestMC_C01", Instrument: true, Shards: 16, BudgetQuick: 150, BudgetThorough: 1500, Env: []string{"GOMAXPROCS=2"}}, {Name: "inbound-poll_opt", Pkg: ".", Tags: "verifmc,poll_opt", Tier: "thorough", Test: "TestMC_C01", Instrument: true, Shards: 16, BudgetQuick: 150, BudgetThorough: 600, Env: []string{"GOMAXPROCS=2"}}, {Name: "inbound-poll_opt-quick", Pkg: ".", Tags: "verifmc,poll_opt", Test: "TestMC_C01", Instrument: true, Shards: 8, BudgetQuick: 150, BudgetThorough: 1500, Env: []string{"GOMAXPROCS=2", "MC_LIGHT=1"}}, {Name: "inbound-gc_opt-quick", Pkg: ".", Tags: "verifmc,gc_opt", Test: "TestMC_C01", Instrument: true, Shards: 8, BudgetQuick: 150, BudgetThorough: 1500, Env: []string{"GOMAXPROCS=2", "MC_LIGHT=1"}}, {Name: "inbound-gc_opt", Pkg: ".", Tags: "verifmc,gc_opt", Tier: "thorough", Test: "TestMC_C01", Instrument: true, Shards: 16, BudgetQuick: 150, BudgetThorough: 600, Env: []string{"GOMAXPROCS=2"}}},
		},
		{
			ID: "C02", Level: "model_checking",
			Rule:        "stateless model checking of the real engine on unix sockets: for each (LT|ET, write program) every schedule within a delay bound x every kernel acceptance pattern (short write of 1/half, EAGAIN in LT) within a deviation bound, plus real back-pressure (peer stalls until the system is quiescent, payloads larger than the socket buffer); oracle: the peer receives exactly the accepted payloads, contiguous and in effect order (callback sequence merged with one goroutine's asynchronous sequence), OutboundBuffered accounting inside callbacks against the ledger, nothing stays unsent while the peer reads, one callback per accepted asynchronous write",
			Assumptions: append([]string{"EAGAIN is injected in LT mode only (in ET no edge would follow a fake EAGAIN)", "payload j byte i = (37j+3i+1) mod 251"}, commonAssumptions...),
			Units:       []Unit{{Name: "outbound", Pkg: ".", Tags: "verifmc", Test: "TestMC_C02", Instrument: true, Shards: 16, BudgetQuick: 150, BudgetThorough: 1500, Env: []string{"GOMAXPROCS=2"}}, {Name: "outbound-poll_opt", Pkg: ".", Tags: "verifmc,poll_opt", Tier: "thorough", Test: "TestMC_C02", Instrument: true, Shards: 16, BudgetQuick: 150, BudgetThorough: 600, Env: []string{"GOMAXPROCS=2"}}, {Name: "outbound-poll_opt-quick", Pkg: ".", Tags: "verifmc,poll_opt", Test: "TestMC_C02", Instrument: true, Shards: 8, BudgetQuick: 150, BudgetThorough: 1500, Env: []string{"GOMAXPROCS=2", "MC_LIGHT=1"}}, {Name: "outbound-gc_opt-quick", Pkg: ".", Tags: "verifmc,gc_opt", Test: "TestMC_C02", Instrument: true, Shards: 8, BudgetQuick: 150, BudgetThorough: 1500, Env: []string{"GOMAXPROCS=2", "MC_LIGHT=1"}}, {Name: "outbound-gc_opt", Pkg: ".", Tags: "verifmc,gc_opt", Tier: "thorough", Test: "TestMC_C02", Instrument: true, Shards: 16, BudgetQuick: 150, BudgetThorough: 600, Env: []string{"GOMAXPROCS=2"}}},
		},
		{
			ID: "C04", Level: "model_checking",
			Rule:        "stateless model checking of the real engine (instrumented, real unix sockets/epoll) under the cooperative scheduler: every interleaving up to a preemption bound of main, event loops, peers and user threads over a catalogue of connection histories; an execution is one evaluation; per-connection lifecycle monitor",
			Assumptions: append([]string{"AF_UNIX stream sockets (synchronous delivery/EOF/HUP), this kernel's epoll semantics", "connection identity = the Conn value handed to OnOpen"}, commonAssumptions...),
			Units:       []Unit{{Name: "life", Pkg: ".", Tags: "verifmc", Test: "TestMC_C04", Instrument: true, Shards: 16, BudgetQuick: 150, BudgetThorough: 1500, Env: []string{"GOMAXPROCS=2"}}, {Name: "life-poll_opt", Pkg: ".", Tags: "verifmc,poll_opt", Tier: "thorough", Test: "TestMC_C04", Instrument: true, Shards: 16, BudgetQuick: 150, BudgetThorough: 600, Env: []string{"GOMAXPROCS=2"}}, {Name: "life-poll_opt-quick", Pkg: ".", Tags: "verifmc,poll_opt", Test: "TestMC_C04", Instrument: true, Shards: 16, BudgetQuick: 150, BudgetThorough: 1500, Env: []string{"GOMAXPROCS=2", "MC_PB=1"}}, {Name: "life-gc_opt-quick", Pkg: ".", Tags: "verifmc,gc_opt", Test: "TestMC_C04", Instrument: true, Shards: 16, BudgetQuick: 150, BudgetThorough: 1500, Env: []string{"GOMAXPROCS=2", "MC_PB=1"}}, {Name: "life-gc_opt", Pkg: ".", Tags: "verifmc,gc_opt", Tier: "thorough", Test: "TestMC_C04", Instrument: true, Shards: 16, BudgetQuick: 150, BudgetThorough: 600, Env: []string{"GOMAXPROCS=2"}}},
		},
		{
			ID: "C05", Level: "model_checking",
			Rule:        "stateless model checking of the real engine built with -race: the scheduler's hand-offs are raw futex operations in //go:norace code, hence invisible to the race detector, which therefore judges every explored schedule by gnet's own happens-before relation; every schedule within the delay bound of user goroutines calling the documented concurrency-safe API against accept/traffic/close/tick/start/stop; a confinement monitor checks one thread per loop and no overlapping callbacks; an execution is one evaluation",
			Assumptions: append([]string{"races are found between accesses executed in an explored schedule (happens-before based, independent of timing); hardware weak-memory effects beyond the Go memory model are out of reach", "the harness publishes objects from callbacks to user goroutines through a real atomic.Value, as a correct application must", "self-test: MC_C05_CONTROL=1 adds a scenario calling the non-concurrency-safe SetContext from another goroutine, which must be reported"}, commonAssumptions...),
			Units: []Unit{{Name: "race", Pkg: ".", Tags: "verifmc,mcfutex", Race: true, Test: "TestMC_C05", Instrument: true, Shards: 16, BudgetQuick: 150, BudgetThorough: 1500, Env: []string{"GOMAXPROCS=2"}},
				// the same scenarios against the build variants: the poll_opt poller (its own Trigger/Polling) and
				// the gc_opt connection registry (its own counters, read by CountConnections)
				{Name: "race-poll_opt", Pkg: ".", Tags: "verifmc,mcfutex,poll_opt", Race: true, Test: "TestMC_C05", Instrument: true, Shards: 8, BudgetQuick: 100, BudgetThorough: 1500, Env: []string{"GOMAXPROCS=2"}},
				{Name: "race-gc_opt", Pkg: ".", Tags: "verifmc,mcfutex,gc_opt", Race: true, Test: "TestMC_C05", Instrument: true, Shards: 8, BudgetQuick: 100, BudgetThorough: 1500, Env: []string{"GOMAXPROCS=2"}},
				{Name: "confine", Pkg: ".", Tags: "verifmc", Test: "TestMC_C05Confine", Instrument: true, Shards: 8, BudgetQuick: 100, BudgetThorough: 900, Env: []string{"GOMAXPROCS=2"}}},
		},
		{
			ID: "C06", Level: "model_checking",
			Rule:        "stateless model checking of the real engine: every schedule within a delay bound of shutdown requested from every documented source at every reachable moment of short runs; virtual time (timers fire only when nothing else can run); oracle: Run/Client.Stop returns nil within the step horizon, OnShutdown exactly once, every opened connection closed exactly once before the return, nothing runs afterwards (the scheduler keeps going until no thread is enabled and all timers have fired)",
			Assumptions: append([]string{"bounded time = bounded scheduler steps under the fairness rule; wall-clock time is not observed"}, commonAssumptions...),
			Units:       []Unit{{Name: "shutdown", Pkg: ".", Tags: "verifmc", Test: "TestMC_C06", Instrument: true, Shards: 16, BudgetQuick: 150, BudgetThorough: 1500, Env: []string{"GOMAXPROCS=2"}}, {Name: "shutdown-poll_opt", Pkg: ".", Tags: "verifmc,poll_opt", Tier: "thorough", Test: "TestMC_C06", Instrument: true, Shards: 16, BudgetQuick: 150, BudgetThorough: 600, Env: []string{"GOMAXPROCS=2"}}, {Name: "shutdown-poll_opt-quick", Pkg: ".", Tags: "verifmc,poll_opt", Test: "TestMC_C06", Instrument: true, Shards: 8, BudgetQuick: 150, BudgetThorough: 1500, Env: []string{"GOMAXPROCS=2", "MC_LIGHT=1"}}, {Name: "shutdown-gc_opt-quick", Pkg: ".", Tags: "verifmc,gc_opt", Test: "TestMC_C06", Instrument: true, Shards: 8, BudgetQuick: 150, BudgetThorough: 1500, Env: []string{"GOMAXPROCS=2", "MC_LIGHT=1"}}, {Name: "shutdown-gc_opt", Pkg: ".", Tags: "verifmc,gc_opt", Tier: "thorough", Test: "TestMC_C06", Instrument: true, Shards: 16, BudgetQuick: 150, BudgetThorough: 600, Env: []string{"GOMAXPROCS=2"}}},
		},
		{
			ID: "C07", Level: "model_checking",
			Rule:        "same executions as C04, evaluated with the descriptor ledger kept by the system-call shim: ownership of every fd number, framework calls on closed or foreign descriptors, double close, leaks at the return of Run, unix-socket file removal",
			Assumptions: append([]string{"descriptors created by package net (Dial/Enroll) are outside the ledger"}, commonAssumptions...),
			Units:       []Unit{{Name: "fd", Pkg: ".", Tags: "verifmc", Test: "TestMC_C07", Instrument: true, Shards: 16, BudgetQuick: 150, BudgetThorough: 1500, Env: []string{"GOMAXPROCS=2"}}, {Name: "fd-poll_opt", Pkg: ".", Tags: "verifmc,poll_opt", Tier: "thorough", Test: "TestMC_C07", Instrument: true, Shards: 16, BudgetQuick: 150, BudgetThorough: 600, Env: []string{"GOMAXPROCS=2"}}, {Name: "fd-poll_opt-quick", Pkg: ".", Tags: "verifmc,poll_opt", Test: "TestMC_C07", Instrument: true, Shards: 8, BudgetQuick: 150, BudgetThorough: 1500, Env: []string{"GOMAXPROCS=2", "MC_LIGHT=1"}}, {Name: "fd-gc_opt-quick", Pkg: ".", Tags: "verifmc,gc_opt", Test: "TestMC_C07", Instrument: true, Shards: 8, BudgetQuick: 150, BudgetThorough: 1500, Env: []string{"GOMAXPROCS=2", "MC_LIGHT=1"}}, {Name: "fd-gc_opt", Pkg: ".", Tags: "verifmc,gc_opt", Tier: "thorough", Test: "TestMC_C07", Instrument: true, Shards: 16, BudgetQuick: 150, BudgetThorough: 600, Env: []string{"GOMAXPROCS=2"}}},
		},
		{
			ID: "C08", Level: "model_checking",
			Rule:        "stateless model checking of the real engine with UDP listeners on loopback: 1-2 senders x 1-3 datagrams, every handler choice (consumption and reply mode, Choose points) within a deviation bound and every schedule within a delay bound, plus a size sweep (one datagram per size) on the default schedule; payloads carry sender and sequence number; oracle: exactly one OnTraffic per datagram showing exactly its payload, RemoteAddr == sender's bound address, each reply arrives as exactly one datagram at exactly the addressed socket",
			Assumptions: append([]string{"loopback UDP delivery is synchronous with sendto on this kernel; a bounded real-time settle step only guards against deferral to a softirq thread", "with 2 loops the kernel's SO_REUSEPORT hash decides the receiving loop"}, commonAssumptions...),
			Units:       []Unit{{Name: "udp", Pkg: ".", Tags: "verifmc", Test: "TestMC_C08", Instrument: true, Shards: 16, BudgetQuick: 150, BudgetThorough: 1500, Env: []string{"GOMAXPROCS=2"}}, {Name: "udp-poll_opt", Pkg: ".", Tags: "verifmc,poll_opt", Tier: "thorough", Test: "TestMC_C08", Instrument: true, Shards: 16, BudgetQuick: 150, BudgetThorough: 600, Env: []string{"GOMAXPROCS=2"}}, {Name: "udp-poll_opt-quick", Pkg: ".", Tags: "verifmc,poll_opt", Test: "TestMC_C08", Instrument: true, Shards: 8, BudgetQuick: 150, BudgetThorough: 1500, Env: []string{"GOMAXPROCS=2", "MC_LIGHT=1"}}, {Name: "udp-gc_opt-quick", Pkg: ".", Tags: "verifmc,gc_opt", Test: "TestMC_C08", Instrument: true, Shards: 8, BudgetQuick: 150, BudgetThorough: 1500, Env: []string{"GOMAXPROCS=2", "MC_LIGHT=1"}}, {Name: "udp-gc_opt", Pkg: ".", Tags: "verifmc,gc_opt", Tier: "thorough", Test: "TestMC_C08", Instrument: true, Shards: 16, BudgetQuick: 150, BudgetThorough: 600, Env: []string{"GOMAXPROCS=2"}}},
		},
		{
			ID: "C09", Level: "model_checking",
			Rule: "explicit-state BFS over operation sequences on the real ring.Buffer (successor = fresh instance + replay + 1 op); a state is distinct by (size,r,w,isEmpty); distinct_nontrivial = distinct states reached; evaluations = transitions executed, each compared step by step with a []byte FIFO reference",
			Assumptions: append([]string{"byte values are sequence numbers mod 251; the code never branches on byte values, so states equal up to renumbering have equal futures",
				"reader/writer behaviours are scripts of (n,err) answers with n in {0,1,len-1,len}"}, commonAssumptions...),
			Units: []Unit{{Name: "ring", Pkg: "pkg/buffer/ring", Test: "TestMC_C09", Weight: 16, BudgetQuick: 240, BudgetThorough: 1500}},
		},
		{
			ID: "C10", Level: "model_checking",
			Rule: "explicit-state BFS over operation sequences on the real elastic.Buffer / elastic.RingBuffer (and a pair sharing the ring pool); a state is distinct by (static limit, ring size/r/w/isEmpty or nil, list node lengths); every transition compared with a flat FIFO reference",
			Assumptions: append([]string{"byte values are per-instance hashed sequence numbers", "each scenario runs single-threaded (GOMAXPROCS=1) so that the shared sync.Pool of rings behaves deterministically; the pool is drained before each instance",
				"narrow reading: elastic.Buffer.WriteTo returning ring.ErrIsEmpty without transferring anything while only the list part holds data loses nothing and is not counted as a violation"}, commonAssumptions...),
			Units: []Unit{{Name: "elastic", Pkg: "pkg/buffer/elastic", Test: "TestMC_C10", Shards: 7, ShardsThorough: 9, BudgetQuick: 240, BudgetThorough: 1500, Env: []string{"GOMAXPROCS=1"}}},
		},
		{
			ID: "C11", Level: "model_checking",
			Rule: "explicit-state BFS over operation sequences on the real linkedlist.Buffer; a state is distinct by its list of node lengths; every transition is compared with a [][]byte reference (content, Buffered, Len, IsEmpty, copy semantics)",
			Assumptions: append([]string{"byte values are per-instance hashed sequence numbers; the code never branches on byte values",
				"segmentation of bytes stored by ReadFrom is unspecified and adopted from the implementation after checking sums"}, commonAssumptions...),
			Units: []Unit{{Name: "linkedlist", Pkg: "pkg/buffer/linkedlist", Test: "TestMC_C11", Weight: 16, BudgetQuick: 240, BudgetThorough: 1500}},
		},
	}
}
