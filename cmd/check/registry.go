package main

// Unit is one test binary (package + build tags + instrumentation) and the test function that
// drives the exploration.
type Unit struct {
	Name           string
	Pkg            string // directory relative to /repo ("." for the root package)
	Tags           string
	Race           bool
	Instrument     bool   // run the rewriter (import swaps, blocking constructs) over the engine packages
	Test           string // test function name
	Tier           string // "" = both tiers, "thorough" = only in the thorough tier
	Shards         int
	ShardsThorough int
	Weight         int // CPU slots one shard occupies (in-process parallel searches use many)
	BudgetQuick    int // internal deadline in seconds handed to the harness (0 = none)
	BudgetThorough int
	Env            []string
	ExtraOverlay   map[string]string
}

// Check is one property.
type Check struct {
	ID          string
	Level       string
	Rule        string
	Assumptions []string
	Units       []Unit
}

var commonAssumptions = []string{
	"linux/amd64, go1.23.5, this sandbox's kernel; kqueue/BSD/Windows files are not built",
	"bounds are bounds: coverage is complete only up to the bounds listed in coverage.bounds_completed",
	"the harness, the explorer packages under /verif/mc and the Go toolchain are trusted",
}

func checks() []Check {
	return []Check{
		{
			ID: "C09", Level: "model_checking",
			Rule: "explicit-state BFS over operation sequences on the real ring.Buffer (successor = fresh instance + replay + 1 op); a state is distinct by (size,r,w,isEmpty); distinct_nontrivial = distinct states reached; evaluations = transitions executed, each compared step by step with a []byte FIFO reference",
			Assumptions: append([]string{"byte values are sequence numbers mod 251; the code never branches on byte values, so states equal up to renumbering have equal futures",
				"reader/writer behaviours are scripts of (n,err) answers with n in {0,1,len-1,len}"}, commonAssumptions...),
			Units: []Unit{{Name: "ring", Pkg: "pkg/buffer/ring", Test: "TestMC_C09", Weight: 16, BudgetQuick: 240, BudgetThorough: 1500}},
		},
	}
}
