package main

// Unit is one test binary (package + build tags + instrumentation) and the test function that
// drives the exploration.
type Unit struct {
	Name           string
	Pkg            string // directory relative to /repo ("." for the root package)
	Tags           string
	Race           bool
	Instrument     bool   // run the rewriter (import swaps, blocking constructs) over the engine packages
	Test           string // test function name
	Tier           string // "" = both tiers, "thorough" = only in the thorough tier
	Shards         int
	ShardsThorough int
	Weight         int // CPU slots one shard occupies (in-process parallel searches use many)
	BudgetQuick    int // internal deadline in seconds handed to the harness (0 = none)
	BudgetThorough int
	Env            []string
	ExtraOverlay   map[string]string
}

// Check is one property.
type Check struct {
	ID          string
	Level       string
	Rule        string
	Assumptions []string
	Units       []Unit
}

var commonAssumptions = []string{
	"linux/amd64, go1.23.5, this sandbox's kernel; kqueue/BSD/Windows files are not built",
	"bounds are bounds: coverage is complete only up to the bounds listed in coverage.bounds_completed",
	"the harness, the explorer packages under /verif/mc and the Go toolchain are trusted",
}

func checks() []Check {
	return []Check{
		{
			ID: "C20", Level: "exploration",
			Rule: "bounded-exhaustive enumeration of the integer domain (every int of the stated ranges, all power-of-two neighbourhoods up to 2^62); expectations derived from interval enumeration (loop-based reference); distinct_nontrivial = distinct inputs > 2 (math) / all inputs (index, gfd), counted",
			Assumptions: commonAssumptions,
			Units: []Unit{
				{Name: "math", Pkg: "pkg/math", Test: "TestMC_C20", Weight: 16},
				{Name: "bsindex", Pkg: "pkg/pool/byteslice", Test: "TestMC_C20idx", Weight: 16},
				{Name: "gfd", Pkg: "internal/gfd", Test: "TestMC_C20gfd", Weight: 1},
			},
		},
		{
			ID: "C09", Level: "model_checking",
			Rule: "explicit-state BFS over operation sequences on the real ring.Buffer (successor = fresh instance + replay + 1 op); a state is distinct by (size,r,w,isEmpty); distinct_nontrivial = distinct states reached; evaluations = transitions executed, each compared step by step with a []byte FIFO reference",
			Assumptions: append([]string{"byte values are sequence numbers mod 251; the code never branches on byte values, so states equal up to renumbering have equal futures",
				"reader/writer behaviours are scripts of (n,err) answers with n in {0,1,len-1,len}"}, commonAssumptions...),
			Units: []Unit{{Name: "ring", Pkg: "pkg/buffer/ring", Test: "TestMC_C09", Weight: 16, BudgetQuick: 240, BudgetThorough: 1500}},
		},
		{
			ID: "C10", Level: "model_checking",
			Rule: "explicit-state BFS over operation sequences on the real elastic.Buffer / elastic.RingBuffer (and a pair sharing the ring pool); a state is distinct by (static limit, ring size/r/w/isEmpty or nil, list node lengths); every transition compared with a flat FIFO reference",
			Assumptions: append([]string{"byte values are per-instance hashed sequence numbers", "each scenario runs single-threaded (GOMAXPROCS=1) so that the shared sync.Pool of rings behaves deterministically; the pool is drained before each instance",
				"narrow reading: elastic.Buffer.WriteTo returning ring.ErrIsEmpty without transferring anything while only the list part holds data loses nothing and is not counted as a violation"}, commonAssumptions...),
			Units: []Unit{{Name: "elastic", Pkg: "pkg/buffer/elastic", Test: "TestMC_C10", Shards: 7, ShardsThorough: 9, BudgetQuick: 240, BudgetThorough: 1500, Env: []string{"GOMAXPROCS=1"}}},
		},
		{
			ID: "C11", Level: "model_checking",
			Rule: "explicit-state BFS over operation sequences on the real linkedlist.Buffer; a state is distinct by its list of node lengths; every transition is compared with a [][]byte reference (content, Buffered, Len, IsEmpty, copy semantics)",
			Assumptions: append([]string{"byte values are per-instance hashed sequence numbers; the code never branches on byte values",
				"segmentation of bytes stored by ReadFrom is unspecified and adopted from the implementation after checking sums"}, commonAssumptions...),
			Units: []Unit{{Name: "linkedlist", Pkg: "pkg/buffer/linkedlist", Test: "TestMC_C11", Weight: 16, BudgetQuick: 240, BudgetThorough: 1500}},
		},
	}
}
