// Command check is the orchestrator of the gnet model-checking machinery in /verif.
//
//	check <ID> [--tier quick|thorough] [--replay file] [--keep]
//	check --warm            pre-build every harness binary (used by MANIFEST.setup_cmd)
//	check --list
//
// For one property it (1) regenerates an overlay from /repo's *current working tree* (harness test
// files injected in-package, explorer packages mapped in as internal/verifmc/..., engine files
// instrumented by the rewriter where the unit asks for it), (2) builds the test binaries with
// `go test -c -overlay`, (3) runs them (possibly as several shard processes), (4) merges their
// result files into /verif/evidence/<ID>.json and (5) prints VIOLATION / KNOWN-FINDING lines.
// Exit codes: 0 held, 1 violation, 2 infrastructure error.
package main

import (
	"crypto/sha1"
	"encoding/json"
	"flag"
	"fmt"
	"os"
	"os/exec"
	"path/filepath"
	"sort"
	"strconv"
	"strings"
	"sync"
	"time"
)

var (
	repoDir  = envOr("VERIF_REPO", "/repo")
	verifDir = envOr("VERIF_DIR", "/verif")
	outDir   = envOr("VERIF_OUT", envOr("VERIF_DIR", "/verif")) // evidence/ and replays/ go here
)

func envOr(k, d string) string {
	if v := os.Getenv(k); v != "" {
		return v
	}
	return d
}

func die(code int, format string, a ...interface{}) {
	fmt.Fprintf(os.Stderr, "check: "+format+"\n", a...)
	os.Exit(code)
}

func goEnv() []string {
	env := os.Environ()
	env = append(env, "GOFLAGS=-mod=mod", "GOPROXY=off", "GOSUMDB=off", "GOTOOLCHAIN=local", "CGO_ENABLED=1")
	return env
}

// Violation mirrors seqmc.Violation / sched violations as written by the harnesses.
type Violation struct {
	Property string          `json:"property"`
	Scenario string          `json:"scenario"`
	Sig      string          `json:"sig"`
	Msg      string          `json:"msg"`
	History  json.RawMessage `json:"history,omitempty"`
	Schedule json.RawMessage `json:"schedule,omitempty"`
	Trace    json.RawMessage `json:"trace,omitempty"`
	Replays  int             `json:"replays_identical"`
	Bound    string          `json:"bound,omitempty"`
	Unit     string          `json:"unit,omitempty"`
	Tags     string          `json:"tags,omitempty"`
	Race     bool            `json:"race,omitempty"`
}

// stuckReport extracts the scenario name and the report of the scheduler's watchdog from a shard's output.
func stuckReport(out string) (scenario, report string) {
	i := strings.Index(out, "MC-STUCK scenario=")
	if i < 0 {
		return "", ""
	}
	rest := out[i:]
	if j := strings.Index(rest, "MC-STUCK-END"); j > 0 {
		rest = rest[:j]
	}
	line := rest
	if k := strings.IndexByte(line, '\n'); k > 0 {
		line = line[:k]
	}
	var sc string
	if _, err := fmt.Sscanf(line, "MC-STUCK scenario=%q", &sc); err != nil {
		return "", ""
	}
	if len(rest) > 3000 {
		rest = rest[:3000]
	}
	return sc, rest
}

// Result mirrors seqmc.Result.
type Result struct {
	Property    string                   `json:"property"`
	Tier        string                   `json:"tier"`
	Shard       string                   `json:"shard"`
	Evaluations int64                    `json:"evaluations"`
	Distinct    int64                    `json:"distinct_nontrivial"`
	States      int64                    `json:"states"`
	Transitions int64                    `json:"transitions"`
	Exhaustive  bool                     `json:"exhaustive"`
	Caps        []string                 `json:"caps,omitempty"`
	Bounds      []string                 `json:"bounds,omitempty"`
	Scenarios   []map[string]interface{} `json:"scenarios,omitempty"`
	Samples     []string                 `json:"samples,omitempty"`
	Notes       []string                 `json:"notes,omitempty"`
	Violations  []Violation              `json:"violations,omitempty"`
	Extra       map[string]interface{}   `json:"extra,omitempty"`
}

type knownFindings struct {
	Findings []struct {
		Property string `json:"property"`
		Sig      string `json:"sig"`
		What     string `json:"what"`
	} `json:"findings"`
	Fixed []string `json:"fixed"`
}

func loadKnown() knownFindings {
	var k knownFindings
	b, err := os.ReadFile(filepath.Join(verifDir, "known_findings.json"))
	if err != nil {
		return k
	}
	if err := json.Unmarshal(b, &k); err != nil {
		die(2, "known_findings.json: %v", err)
	}
	return k
}

func main() {
	tier := flag.String("tier", "", "quick|thorough (default: $VERIF_TIER or quick)")
	replay := flag.String("replay", "", "replay a violation artefact")
	warm := flag.Bool("warm", false, "pre-build all harness binaries")
	list := flag.Bool("list", false, "list checks")
	keep := flag.Bool("keep", false, "keep the scratch directory")
	only := flag.String("unit", "", "run only units whose name contains this string (=name: exact match)")
	// allow "check C09 --tier quick": move the positional first argument behind the flags
	args := os.Args[1:]
	var pos []string
	var fl []string
	for i := 0; i < len(args); i++ {
		a := args[i]
		if strings.HasPrefix(a, "-") {
			fl = append(fl, a)
			if !strings.Contains(a, "=") && (a == "--tier" || a == "-tier" || a == "--replay" || a == "-replay" || a == "--unit" || a == "-unit") && i+1 < len(args) {
				i++
				fl = append(fl, args[i])
			}
		} else {
			pos = append(pos, a)
		}
	}
	if err := flag.CommandLine.Parse(fl); err != nil {
		os.Exit(2)
	}
	if *list {
		for _, c := range checks() {
			fmt.Println(c.ID, c.Level, len(c.Units), "units")
		}
		return
	}
	if *tier == "" {
		*tier = os.Getenv("VERIF_TIER")
	}
	if *tier != "thorough" {
		*tier = "quick"
	}
	if *warm {
		os.Exit(doWarm())
	}
	if len(pos) != 1 {
		die(2, "usage: check <ID> [--tier quick|thorough] [--replay file]")
	}
	id := pos[0]
	var chk *Check
	for _, c := range checks() {
		if c.ID == id {
			cc := c
			chk = &cc
		}
	}
	if chk == nil {
		die(2, "unknown property %s", id)
	}
	os.Exit(runCheck(chk, *tier, *replay, *keep, *only))
}

func scratchDir() string {
	base := envOr("VERIF_SCRATCH", "/var/tmp")
	d, err := os.MkdirTemp(base, "verifmc-")
	if err != nil {
		die(2, "scratch: %v", err)
	}
	return d
}

type builtUnit struct {
	u   Unit
	bin string
	err error
	out string
}

func buildUnit(scratch string, u Unit, idx int) builtUnit {
	b := builtUnit{u: u}
	udir := filepath.Join(scratch, fmt.Sprintf("u%d", idx))
	if err := os.MkdirAll(udir, 0o755); err != nil {
		b.err = err
		return b
	}
	ov, err := makeOverlay(udir, u)
	if err != nil {
		b.err = fmt.Errorf("overlay: %v", err)
		return b
	}
	b.bin = filepath.Join(udir, "mc.test")
	args := []string{"test", "-c", "-vet=off", "-overlay", ov, "-o", b.bin}
	if u.Tags != "" {
		args = append(args, "-tags", u.Tags)
	}
	if u.Race {
		args = append(args, "-race")
		if strings.Contains(u.Tags, "poll_opt") {
			// -race switches on checkptr, and the poll_opt poller deliberately converts the (4-byte
			// aligned) data field of a packed epoll_event into a pointer: "fatal error: checkptr:
			// misaligned pointer conversion" on the first event. Harmless on amd64; checkptr off.
			args = append(args, "-gcflags=all=-d=checkptr=0")
		}
	}
	args = append(args, "./"+u.Pkg)
	cmd := exec.Command("go", args...)
	cmd.Dir = repoDir
	cmd.Env = goEnv()
	out, err := cmd.CombinedOutput()
	b.out = string(out)
	if err != nil {
		b.err = fmt.Errorf("go %s: %v\n%s", strings.Join(args, " "), err, out)
	}
	return b
}

func doWarm() int {
	scratch := scratchDir()
	defer os.RemoveAll(scratch)
	seen := map[string]bool{}
	var units []Unit
	for _, c := range checks() {
		for _, u := range c.Units {
			k := fmt.Sprintf("%s|%s|%v|%v", u.Pkg, u.Tags, u.Race, u.Instrument)
			if !seen[k] {
				seen[k] = true
				units = append(units, u)
			}
		}
	}
	rc := 0
	sem := make(chan struct{}, 4)
	var wg sync.WaitGroup
	var mu sync.Mutex
	for i, u := range units {
		wg.Add(1)
		go func(i int, u Unit) {
			defer wg.Done()
			sem <- struct{}{}
			defer func() { <-sem }()
			t0 := time.Now()
			b := buildUnit(scratch, u, i)
			mu.Lock()
			defer mu.Unlock()
			if b.err != nil {
				fmt.Fprintf(os.Stderr, "warm: %s: %v\n", u.Name, b.err)
				rc = 2
			} else {
				fmt.Printf("warm: built %s (%s tags=%q race=%v) in %.1fs\n", u.Name, u.Pkg, u.Tags, u.Race, time.Since(t0).Seconds())
			}
		}(i, u)
	}
	wg.Wait()
	return rc
}

func runCheck(chk *Check, tier, replay string, keep bool, only string) int {
	t0 := time.Now()
	seed, _ := strconv.Atoi(os.Getenv("VERIF_SEED"))
	scratch := scratchDir()
	if !keep {
		defer os.RemoveAll(scratch)
	} else {
		fmt.Fprintln(os.Stderr, "scratch:", scratch)
	}

	var units []Unit
	for _, u := range chk.Units {
		if u.Tier == "thorough" && tier != "thorough" {
			continue
		}
		if strings.HasPrefix(only, "=") && u.Name != only[1:] {
			continue
		}
		if only != "" && !strings.HasPrefix(only, "=") && !strings.Contains(u.Name, only) {
			continue
		}
		units = append(units, u)
	}
	var rv *Violation
	if replay != "" {
		b, err := os.ReadFile(replay)
		if err != nil {
			die(2, "replay: %v", err)
		}
		rv = &Violation{}
		if err := json.Unmarshal(b, rv); err != nil {
			die(2, "replay: %v", err)
		}
		var sel []Unit
		for _, u := range units {
			if u.Name == rv.Unit {
				sel = append(sel, u)
			}
		}
		if len(sel) == 0 {
			for _, u := range chk.Units {
				if u.Name == rv.Unit {
					sel = append(sel, u)
				}
			}
		}
		if len(sel) == 0 {
			die(2, "replay: unit %q not found", rv.Unit)
		}
		units = sel[:1]
	}

	// build all units (in parallel, bounded)
	built := make([]builtUnit, len(units))
	{
		sem := make(chan struct{}, 4)
		var wg sync.WaitGroup
		for i, u := range units {
			wg.Add(1)
			go func(i int, u Unit) {
				defer wg.Done()
				sem <- struct{}{}
				defer func() { <-sem }()
				built[i] = buildUnit(scratch, u, i)
			}(i, u)
		}
		wg.Wait()
	}
	for _, b := range built {
		if b.err != nil {
			fmt.Fprintf(os.Stderr, "ERROR property=%s unit=%s: build of the instrumented tree failed (neither held nor violated)\n%v\n", chk.ID, b.u.Name, b.err)
			return 2
		}
	}

	if chk.ID == "CONF" {
		// pass-through conformance: gnet's own tests on the instrumented tree, scheduler detached
		b := built[0]
		wd := filepath.Join(filepath.Dir(b.bin), "conf")
		_ = os.MkdirAll(wd, 0o755)
		cmd := exec.Command("unshare", "-n", "sh", "-c", "ip link set lo up; exec "+b.bin+" -test.run '^"+b.u.Test+"$' -test.count=1 -test.timeout=20m")
		cmd.Dir = wd
		cmd.Env = goEnv()
		out, err := cmd.CombinedOutput()
		fmt.Print(tail(string(out), 12))
		if err != nil {
			fmt.Fprintf(os.Stderr, "\nCONF: gnet's own tests FAILED on the instrumented tree: %v\n", err)
			return 2
		}
		fmt.Printf("\nCONF: gnet's own tests pass on the instrumented tree with the scheduler detached (%.0fs)\n", time.Since(t0).Seconds())
		return 0
	}
	if rv != nil {
		b := built[0]
		cmd := exec.Command(b.bin, "-test.run", "^"+b.u.Test+"$", "-test.timeout", "0", "-test.v")
		cmd.Dir = filepath.Dir(b.bin)
		abs, _ := filepath.Abs(replay)
		cmd.Env = append(goEnv(), "MC_TIER="+tier, "MC_REPLAY="+abs, "MC_SCRATCH="+filepath.Dir(b.bin))
		cmd.Env = append(cmd.Env, b.u.Env...)
		out, err := cmd.CombinedOutput()
		fmt.Print(string(out))
		if strings.Contains(string(out), "REPLAY-VIOLATION") {
			fmt.Printf("VIOLATION property=%s replay=%s\n", chk.ID, abs)
			return 1
		}
		if err != nil && !strings.Contains(string(out), "REPLAY-OK") {
			fmt.Fprintf(os.Stderr, "replay run failed: %v\n", err)
			return 2
		}
		return 0
	}

	// run the units; each unit may run as several shard processes. Total parallelism is bounded.
	type job struct {
		b     builtUnit
		shard int
		n     int
	}
	var jobs []job
	for _, b := range built {
		n := b.u.Shards
		if tier == "thorough" && b.u.ShardsThorough > 0 {
			n = b.u.ShardsThorough
		}
		if n <= 0 {
			n = 1
		}
		for s := 0; s < n; s++ {
			jobs = append(jobs, job{b, s, n})
		}
	}
	maxPar := 16
	if v, err := strconv.Atoi(os.Getenv("VERIF_PAR")); err == nil && v > 0 {
		maxPar = v
	}
	results := make([]*Result, len(jobs))
	errs := make([]error, len(jobs))
	outs := make([]string, len(jobs))
	{
		sem := make(chan int, maxPar)
		var acq sync.Mutex
		var wg sync.WaitGroup
		for i, j := range jobs {
			wg.Add(1)
			go func(i int, j job) {
				defer wg.Done()
				w := j.b.u.Weight
				if w <= 0 {
					w = 1
				}
				if w > maxPar {
					w = maxPar
				}
				// the w tokens are taken under a lock: two heavy jobs that each hold part of the
				// tokens while waiting for the rest would wait for each other for ever
				acq.Lock()
				for k := 0; k < w; k++ {
					sem <- 1
				}
				acq.Unlock()
				defer func() {
					for k := 0; k < w; k++ {
						<-sem
					}
				}()
				wd := filepath.Join(filepath.Dir(j.b.bin), fmt.Sprintf("s%d", j.shard))
				_ = os.MkdirAll(wd, 0o755)
				outf := filepath.Join(wd, "result.json")
				cmd := exec.Command(j.b.bin, "-test.run", "^"+j.b.u.Test+"$", "-test.timeout", "0", "-test.v")
				cmd.Dir = wd
				cmd.Env = append(goEnv(), "MC_TIER="+tier, fmt.Sprintf("MC_SHARD=%d/%d", j.shard, j.n), "MC_OUT="+outf,
					"MC_SCRATCH="+wd, fmt.Sprintf("MC_SEED=%d", seed))
				if j.b.u.Weight > 1 {
					cmd.Env = append(cmd.Env, fmt.Sprintf("GOMAXPROCS=%d", w))
				}
				budget := j.b.u.BudgetQuick
				if tier == "thorough" {
					budget = j.b.u.BudgetThorough
				}
				if budget > 0 {
					cmd.Env = append(cmd.Env, fmt.Sprintf("MC_BUDGET_S=%d", budget))
				}
				cmd.Env = append(cmd.Env, j.b.u.Env...)
				if j.b.u.Race {
					cmd.Env = append(cmd.Env, "GORACE=log_path="+filepath.Join(wd, "race")+" halt_on_error=0")
				}
				{
					var ks []string
					for _, k := range loadKnown().Findings {
						if k.Property == chk.ID {
							ks = append(ks, k.Sig)
						}
					}
					cmd.Env = append(cmd.Env, "MC_KNOWN="+strings.Join(ks, "\x1f"))
				}
				// hard wall limit: a harness that overruns its internal budget by far is an infrastructure error
				hard := time.Duration(budget*3+900) * time.Second
				timer := time.AfterFunc(hard, func() {
					if cmd.Process != nil {
						_ = cmd.Process.Kill()
					}
				})
				out, err := cmd.CombinedOutput()
				timer.Stop()
				outs[i] = string(out)
				rb, rerr := os.ReadFile(outf)
				if rerr != nil {
					if sc, rep := stuckReport(string(out)); sc != "" {
						// the scheduler's watchdog gave up on an execution that neither reached a scheduling
						// point nor ended: run that scenario once more; a hang that comes back is a verdict
						// ("the execution never ends"), one that does not is a machine hiccup
						cmd2 := exec.Command(j.b.bin, "-test.run", "^"+j.b.u.Test+"$", "-test.timeout", "0", "-test.v")
						cmd2.Dir = wd
						cmd2.Env = append(append([]string{}, cmd.Env...), "MC_ONLY="+sc)
						t2 := time.AfterFunc(hard, func() {
							if cmd2.Process != nil {
								_ = cmd2.Process.Kill()
							}
						})
						out2, _ := cmd2.CombinedOutput()
						t2.Stop()
						if sc2, _ := stuckReport(string(out2)); sc2 == sc {
							results[i] = &Result{Property: chk.ID, Exhaustive: false, Caps: []string{"execution stuck in " + sc},
								Violations: []Violation{{Property: chk.ID, Scenario: sc, Sig: "end:stuck", Replays: 5, Unit: j.b.u.Name, Tags: j.b.u.Tags, Race: j.b.u.Race,
									Msg: "an execution of the real code neither reached a scheduling point (system call, atomic operation, lock, channel operation) nor ended: a thread runs in an endless loop (or blocks for real) while holding the scheduler's token; reproduced when the scenario was run again. Watchdog report:\n" + rep}}}
							return
						}
						fmt.Fprintf(os.Stderr, "WARN property=%s: unit %s shard %d got stuck in scenario %q once and not again; not reported as violation\n", chk.ID, j.b.u.Name, j.shard, sc)
					}
					errs[i] = fmt.Errorf("unit %s shard %d produced no result (%v)\n%s", j.b.u.Name, j.shard, err, tail(string(out), 60))
					return
				}
				var r Result
				if jerr := json.Unmarshal(rb, &r); jerr != nil {
					errs[i] = fmt.Errorf("unit %s shard %d: bad result: %v", j.b.u.Name, j.shard, jerr)
					return
				}
				for k := range r.Violations {
					r.Violations[k].Unit = j.b.u.Name
					r.Violations[k].Tags = j.b.u.Tags
					r.Violations[k].Race = j.b.u.Race
				}
				results[i] = &r
			}(i, j)
		}
		wg.Wait()
	}
	infraErr := false
	for i, e := range errs {
		if e != nil {
			fmt.Fprintf(os.Stderr, "ERROR property=%s: %v\n", chk.ID, e)
			infraErr = true
			results[i] = &Result{Property: chk.ID, Exhaustive: false, Caps: []string{"a shard ended without a result: " + strings.SplitN(e.Error(), "\n", 2)[0]}}
		}
	}

	// merge
	merged := Result{Property: chk.ID, Tier: tier, Exhaustive: true}
	unitSummaries := []map[string]interface{}{}
	for i, r := range results {
		merged.Evaluations += r.Evaluations
		merged.Distinct += r.Distinct
		merged.States += r.States
		merged.Transitions += r.Transitions
		if !r.Exhaustive {
			merged.Exhaustive = false
		}
		merged.Caps = append(merged.Caps, r.Caps...)
		if jobs[i].shard == 0 {
			for _, b := range r.Bounds {
				merged.Bounds = append(merged.Bounds, jobs[i].b.u.Name+": "+b)
			}
			merged.Notes = append(merged.Notes, r.Notes...)
		}
		for _, s := range r.Samples {
			if len(merged.Samples) < 12 {
				merged.Samples = append(merged.Samples, s)
			}
		}
		merged.Scenarios = append(merged.Scenarios, r.Scenarios...)
		merged.Violations = append(merged.Violations, r.Violations...)
		unitSummaries = append(unitSummaries, map[string]interface{}{
			"unit": jobs[i].b.u.Name, "shard": fmt.Sprintf("%d/%d", jobs[i].shard, jobs[i].n), "pkg": jobs[i].b.u.Pkg, "tags": jobs[i].b.u.Tags, "race": jobs[i].b.u.Race,
			"evaluations": r.Evaluations, "states": r.States, "transitions": r.Transitions, "exhaustive": r.Exhaustive, "extra": r.Extra,
		})
	}

	// violations: dedupe by signature, match known findings, write replay artefacts
	known := loadKnown()
	rc := 0
	seenSig := map[string]bool{}
	knownHit := map[string]bool{}
	nviol := 0
	sort.SliceStable(merged.Violations, func(a, b int) bool { return merged.Violations[a].Sig < merged.Violations[b].Sig })
	var knownLines []string
	for _, v := range merged.Violations {
		if v.Replays < 5 {
			// not reproducible identically: infrastructure problem, not a verdict
			fmt.Fprintf(os.Stderr, "WARN property=%s: counter-example %q reproduced only %d/5 times; not reported as violation\n", chk.ID, v.Sig, v.Replays)
			{
				dir := filepath.Join(outDir, "replays", chk.ID, "unstable")
				_ = os.MkdirAll(dir, 0o755)
				vb, _ := json.MarshalIndent(v, "", " ")
				_ = os.WriteFile(filepath.Join(dir, sanitize(v.Sig)+".json"), vb, 0o644)
			}
			merged.Notes = append(merged.Notes, fmt.Sprintf("unstable counter-example discarded: %s (%d/5)", v.Sig, v.Replays))
			merged.Exhaustive = false
			continue
		}
		isKnown := false
		for _, k := range known.Findings {
			if k.Property == chk.ID && k.Sig == v.Sig {
				isKnown = true
				if !knownHit[k.Sig] {
					knownHit[k.Sig] = true
					knownLines = append(knownLines, fmt.Sprintf("KNOWN-FINDING: property=%s %s [%s]", chk.ID, k.What, k.Sig))
				}
			}
		}
		if isKnown {
			continue
		}
		if seenSig[v.Sig] {
			continue
		}
		seenSig[v.Sig] = true
		nviol++
		rc = 1
		dir := filepath.Join(outDir, "replays", chk.ID)
		_ = os.MkdirAll(dir, 0o755)
		vb, _ := json.MarshalIndent(v, "", " ")
		h := sha1.Sum([]byte(v.Sig + v.Unit))
		path := filepath.Join(dir, fmt.Sprintf("%s-%x.json", sanitize(v.Sig), h[:4]))
		_ = os.WriteFile(path, vb, 0o644)
		fmt.Printf("VIOLATION property=%s replay=%s\n", chk.ID, path)
		fmt.Printf("  unit=%s sig=%s\n  %s\n", v.Unit, v.Sig, v.Msg)
	}
	for _, l := range knownLines {
		fmt.Println(l)
	}

	if infraErr && rc == 0 {
		// no violation was found and part of the exploration is missing: neither held nor violated
		return 2
	}
	writeEvidence(chk, tier, seed, &merged, unitSummaries, nviol, knownLines, time.Since(t0).Seconds())
	fmt.Printf("check %s tier=%s: evaluations=%d states=%d transitions=%d exhaustive=%v violations=%d known=%d wall=%.1fs\n",
		chk.ID, tier, merged.Evaluations, merged.States, merged.Transitions, merged.Exhaustive, nviol, len(knownLines), time.Since(t0).Seconds())
	return rc
}

func sanitize(s string) string {
	var b strings.Builder
	for _, r := range s {
		if (r >= 'a' && r <= 'z') || (r >= 'A' && r <= 'Z') || (r >= '0' && r <= '9') || r == '-' || r == '_' {
			b.WriteRune(r)
		} else {
			b.WriteByte('_')
		}
	}
	out := b.String()
	if len(out) > 60 {
		out = out[:60]
	}
	return out
}

func tail(s string, n int) string {
	lines := strings.Split(s, "\n")
	if len(lines) > n {
		lines = lines[len(lines)-n:]
	}
	return strings.Join(lines, "\n")
}

func writeEvidence(chk *Check, tier string, seed int, m *Result, units []map[string]interface{}, nviol int, known []string, wall float64) {
	cov := map[string]interface{}{
		"evaluations":         m.Evaluations,
		"distinct_nontrivial": m.Distinct,
		"rule":                chk.Rule,
		"samples":             m.Samples,
		"exhaustive":          m.Exhaustive,
		"bounds_completed":    m.Bounds,
		"caps_hit":            m.Caps,
		"units":               units,
		"notes":               m.Notes,
		"known_findings":      known,
	}
	if len(m.Scenarios) > 0 {
		sc := m.Scenarios
		if len(sc) > 60 {
			sc = sc[:60]
		}
		cov["scenarios"] = sc
		cov["scenario_count"] = len(m.Scenarios)
	}
	if chk.Level == "model_checking" {
		cov["states"] = m.States
		cov["transitions"] = m.Transitions
		// every explored execution/transition is an execution of the implementation itself
		cov["traces_validated_against_impl"] = m.Evaluations
	}
	if len(m.Samples) == 0 {
		cov["samples"] = []string{"(no sample recorded)"}
	}
	ev := map[string]interface{}{
		"property_id": chk.ID,
		"tier":        tier,
		"seed":        seed,
		"level":       chk.Level,
		"coverage":    cov,
		"assumptions": chk.Assumptions,
		"wall_s":      wall,
		"violations":  nviol,
	}
	b, _ := json.MarshalIndent(ev, "", " ")
	dir := filepath.Join(outDir, "evidence")
	_ = os.MkdirAll(dir, 0o755)
	if err := os.WriteFile(filepath.Join(dir, chk.ID+".json"), b, 0o644); err != nil {
		die(2, "evidence: %v", err)
	}
}
