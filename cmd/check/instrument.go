package main

// The rewriter ("mcrewrite" in DESIGN.md §1.2): generates, from /repo's CURRENT working tree,
// instrumented copies of the engine's source files for the overlay:
//   - import swaps (sync/atomic, x/sys/unix, errgroup, time, sync, goroutine pool) to shims under
//     internal/verifmc/..., keeping the local package name so call sites stay untouched;
//   - AST rewrites of blocking constructs (bare channel receive/send statements, select without
//     default, go statements) into scheduler-visible operations;
//   - a generated alias file for the x/sys/unix shim covering every unix.X the rewritten files use.
// It fails loudly (the check exits 2) on constructs it cannot preserve mechanically.

import (
	"bytes"
	"fmt"
	"go/ast"
	"go/build"
	"go/parser"
	"go/printer"
	"go/token"
	"os"
	"os/exec"
	"path/filepath"
	"sort"
	"strconv"
	"strings"
	"sync"
)

const verifmcPath = "github.com/panjf2000/gnet/v2/internal/verifmc/"

var importSwaps = map[string][2]string{ // import path -> {shim package, local name}
	"sync/atomic":                {"mcatomic", "atomic"},
	"golang.org/x/sys/unix":      {"mcsys", "unix"},
	"golang.org/x/sync/errgroup": {"mcerrgroup", "errgroup"},
	"time":                       {"mctime", "time"},
	"sync":                       {"mcsync", "sync"},
	"github.com/panjf2000/gnet/v2/pkg/pool/goroutine": {"mcgopool", "goroutine"},
}

// per package: which swaps apply
var defaultInstrPkgs = []string{".", "pkg/netpoll", "pkg/socket", "pkg/io", "pkg/queue"}

func swapsFor(pkg string) map[string]bool {
	switch pkg {
	case ".":
		return map[string]bool{"sync/atomic": true, "golang.org/x/sys/unix": true, "golang.org/x/sync/errgroup": true, "time": true, "sync": true,
			"github.com/panjf2000/gnet/v2/pkg/pool/goroutine": true}
	case "pkg/queue":
		return map[string]bool{"sync/atomic": true}
	default:
		return map[string]bool{"sync/atomic": true, "golang.org/x/sys/unix": true}
	}
}

type rewriter struct {
	fset      *token.FileSet
	unixNames map[string]bool
	timeNames map[string]bool
	selCount  int
	errs      []string
	needSched bool
	file      string
}

func (r *rewriter) errf(pos token.Pos, format string, a ...interface{}) {
	r.errs = append(r.errs, fmt.Sprintf("%s: %s", r.fset.Position(pos), fmt.Sprintf(format, a...)))
}

func schedCall(fn string, args ...ast.Expr) *ast.CallExpr {
	return &ast.CallExpr{Fun: &ast.SelectorExpr{X: ast.NewIdent("mcsched"), Sel: ast.NewIdent(fn)}, Args: args}
}

func isRecv(e ast.Expr) (*ast.UnaryExpr, bool) {
	for {
		if p, ok := e.(*ast.ParenExpr); ok {
			e = p.X
			continue
		}
		break
	}
	u, ok := e.(*ast.UnaryExpr)
	return u, ok && u.Op == token.ARROW
}

// rewriteStmts rewrites a statement list in place.
func (r *rewriter) rewriteStmts(list []ast.Stmt) {
	for i, s := range list {
		list[i] = r.rewriteStmt(s)
	}
}

func (r *rewriter) rewriteStmt(s ast.Stmt) ast.Stmt {
	switch st := s.(type) {
	case *ast.ExprStmt:
		if u, ok := isRecv(st.X); ok {
			r.needSched = true
			r.rewriteExpr(u.X)
			return &ast.ExprStmt{X: schedCall("RecvDiscard", u.X)}
		}
		r.rewriteExpr(st.X)
	case *ast.SendStmt:
		r.needSched = true
		r.rewriteExpr(st.Chan)
		r.rewriteExpr(st.Value)
		return &ast.ExprStmt{X: schedCall("SendAny", st.Chan, st.Value)}
	case *ast.GoStmt:
		r.needSched = true
		r.rewriteExpr(st.Call)
		if fl, ok := st.Call.Fun.(*ast.FuncLit); ok && len(st.Call.Args) == 0 {
			return &ast.ExprStmt{X: schedCall("Go", &ast.BasicLit{Kind: token.STRING, Value: `"go"`}, fl)}
		}
		for _, a := range st.Call.Args {
			simple := true
			ast.Inspect(a, func(n ast.Node) bool {
				if _, ok := n.(*ast.CallExpr); ok {
					simple = false
				}
				return true
			})
			if !simple {
				r.errf(st.Pos(), "go statement with call arguments cannot be rewritten mechanically")
			}
		}
		body := &ast.BlockStmt{List: []ast.Stmt{&ast.ExprStmt{X: st.Call}}}
		return &ast.ExprStmt{X: schedCall("Go", &ast.BasicLit{Kind: token.STRING, Value: `"go"`}, &ast.FuncLit{Type: &ast.FuncType{Params: &ast.FieldList{}}, Body: body})}
	case *ast.SelectStmt:
		hasDefault := false
		for _, c := range st.Body.List {
			cc := c.(*ast.CommClause)
			if cc.Comm == nil {
				hasDefault = true
			}
			r.rewriteStmts(cc.Body)
			if _, ok := cc.Comm.(*ast.SendStmt); ok && !hasDefault {
				// a send case in a blocking select keeps its meaning under the polling form too
			}
		}
		if hasDefault {
			return st
		}
		r.needSched = true
		r.selCount++
		label := fmt.Sprintf("_mcsel%d", r.selCount)
		for _, c := range st.Body.List {
			cc := c.(*ast.CommClause)
			r.retargetBreaks(cc.Body, label)
			cc.Body = append(cc.Body, &ast.BranchStmt{Tok: token.BREAK, Label: ast.NewIdent(label)})
		}
		st.Body.List = append(st.Body.List, &ast.CommClause{Comm: nil, Body: []ast.Stmt{&ast.ExprStmt{X: schedCall("Block")}}})
		loop := &ast.ForStmt{Body: &ast.BlockStmt{List: []ast.Stmt{st}}}
		return &ast.LabeledStmt{Label: ast.NewIdent(label), Stmt: loop}
	case *ast.BlockStmt:
		r.rewriteStmts(st.List)
	case *ast.IfStmt:
		if st.Init != nil {
			st.Init = r.rewriteStmt(st.Init)
		}
		r.rewriteExpr(st.Cond)
		r.rewriteStmts(st.Body.List)
		if st.Else != nil {
			st.Else = r.rewriteStmt(st.Else)
		}
	case *ast.ForStmt:
		if st.Init != nil {
			st.Init = r.rewriteStmt(st.Init)
		}
		if st.Cond != nil {
			r.rewriteExpr(st.Cond)
		}
		if st.Post != nil {
			st.Post = r.rewriteStmt(st.Post)
		}
		r.rewriteStmts(st.Body.List)
	case *ast.RangeStmt:
		r.rewriteExpr(st.X)
		r.rewriteStmts(st.Body.List)
	case *ast.SwitchStmt:
		if st.Init != nil {
			st.Init = r.rewriteStmt(st.Init)
		}
		if st.Tag != nil {
			r.rewriteExpr(st.Tag)
		}
		for _, c := range st.Body.List {
			cc := c.(*ast.CaseClause)
			for _, e := range cc.List {
				r.rewriteExpr(e)
			}
			r.rewriteStmts(cc.Body)
		}
	case *ast.TypeSwitchStmt:
		if st.Init != nil {
			st.Init = r.rewriteStmt(st.Init)
		}
		st.Assign = r.rewriteStmt(st.Assign)
		for _, c := range st.Body.List {
			r.rewriteStmts(c.(*ast.CaseClause).Body)
		}
	case *ast.LabeledStmt:
		st.Stmt = r.rewriteStmt(st.Stmt)
	case *ast.AssignStmt:
		for _, e := range st.Rhs {
			if _, ok := isRecv(e); ok {
				r.errf(st.Pos(), "channel receive in an assignment cannot be rewritten mechanically")
			}
			r.rewriteExpr(e)
		}
		for _, e := range st.Lhs {
			r.rewriteExpr(e)
		}
	case *ast.ReturnStmt:
		for _, e := range st.Results {
			r.rewriteExpr(e)
		}
	case *ast.DeferStmt:
		r.rewriteExpr(st.Call)
	case *ast.DeclStmt:
		if gd, ok := st.Decl.(*ast.GenDecl); ok {
			for _, sp := range gd.Specs {
				if vs, ok := sp.(*ast.ValueSpec); ok {
					for _, e := range vs.Values {
						r.rewriteExpr(e)
					}
				}
			}
		}
	case *ast.IncDecStmt:
		r.rewriteExpr(st.X)
	}
	return s
}

// rewriteExpr descends into function literals and flags receives in expression position.
func (r *rewriter) rewriteExpr(e ast.Expr) {
	if e == nil {
		return
	}
	ast.Inspect(e, func(n ast.Node) bool {
		switch x := n.(type) {
		case *ast.FuncLit:
			r.rewriteStmts(x.Body.List)
			return false
		case *ast.UnaryExpr:
			if x.Op == token.ARROW {
				r.errf(x.Pos(), "channel receive inside an expression cannot be rewritten mechanically")
			}
		}
		return true
	})
}

// retargetBreaks makes unlabelled breaks of a select case body leave the polling loop, and
// refuses unlabelled continues (they would bind to the polling loop).
func (r *rewriter) retargetBreaks(list []ast.Stmt, label string) {
	var walk func(n ast.Node, inLoop, inSwitch bool)
	walk = func(n ast.Node, inLoop, inSwitch bool) {
		switch x := n.(type) {
		case nil:
		case *ast.BranchStmt:
			if x.Label == nil && x.Tok == token.BREAK && !inLoop && !inSwitch {
				x.Label = ast.NewIdent(label)
			}
			if x.Label == nil && x.Tok == token.CONTINUE && !inLoop {
				r.errf(x.Pos(), "unlabelled continue inside a select case cannot be rewritten mechanically")
			}
		case *ast.BlockStmt:
			for _, s := range x.List {
				walk(s, inLoop, inSwitch)
			}
		case *ast.IfStmt:
			walk(x.Body, inLoop, inSwitch)
			if x.Else != nil {
				walk(x.Else, inLoop, inSwitch)
			}
		case *ast.ForStmt:
			walk(x.Body, true, inSwitch)
		case *ast.RangeStmt:
			walk(x.Body, true, inSwitch)
		case *ast.SwitchStmt:
			for _, c := range x.Body.List {
				for _, s := range c.(*ast.CaseClause).Body {
					walk(s, inLoop, true)
				}
			}
		case *ast.TypeSwitchStmt:
			for _, c := range x.Body.List {
				for _, s := range c.(*ast.CaseClause).Body {
					walk(s, inLoop, true)
				}
			}
		case *ast.SelectStmt:
			for _, c := range x.Body.List {
				for _, s := range c.(*ast.CommClause).Body {
					walk(s, inLoop, true)
				}
			}
		case *ast.LabeledStmt:
			walk(x.Stmt, inLoop, inSwitch)
		}
	}
	for _, s := range list {
		walk(s, false, false)
	}
}

func matchContext(tags string, race bool) *build.Context {
	ctx := build.Default
	ctx.GOOS, ctx.GOARCH = "linux", "amd64"
	ctx.CgoEnabled = true
	ctx.BuildTags = nil
	for _, t := range strings.Split(tags, ",") {
		if t = strings.TrimSpace(t); t != "" {
			ctx.BuildTags = append(ctx.BuildTags, t)
		}
	}
	if race {
		ctx.BuildTags = append(ctx.BuildTags, "race")
	}
	return &ctx
}

// instrument rewrites the engine packages of unit u into dir and adds them to the overlay.
func instrument(dir string, u Unit, repl map[string]string) error {
	pkgs := u.InstrPkgs
	if len(pkgs) == 0 {
		pkgs = defaultInstrPkgs
	}
	ctx := matchContext(u.Tags, u.Race)
	fset := token.NewFileSet()
	unixUsed := map[string]bool{}
	timeUsed := map[string]bool{}
	var allErrs []string
	for _, pkg := range pkgs {
		pdir := filepath.Join(repoDir, pkg)
		ents, err := os.ReadDir(pdir)
		if err != nil {
			return err
		}
		swaps := swapsFor(pkg)
		for _, e := range ents {
			name := e.Name()
			if e.IsDir() || !strings.HasSuffix(name, ".go") || strings.HasSuffix(name, "_test.go") {
				continue
			}
			if ok, err := ctx.MatchFile(pdir, name); err != nil || !ok {
				continue
			}
			src := filepath.Join(pdir, name)
			f, err := parser.ParseFile(fset, src, nil, parser.ParseComments)
			if err != nil {
				return fmt.Errorf("parse %s: %v", src, err)
			}
			changed := false
			locals := map[string]string{} // local name -> original import path (swapped ones)
			for _, im := range f.Imports {
				p, _ := strconv.Unquote(im.Path.Value)
				sw, ok := importSwaps[p]
				if !ok || !swaps[p] {
					continue
				}
				local := sw[1]
				if im.Name != nil {
					local = im.Name.Name
				} else {
					im.Name = ast.NewIdent(local)
				}
				im.Path.Value = strconv.Quote(verifmcPath + sw[0])
				im.EndPos = 0
				locals[local] = p
				changed = true
			}
			// collect unix.X / time.X selectors
			ast.Inspect(f, func(n ast.Node) bool {
				if se, ok := n.(*ast.SelectorExpr); ok {
					if id, ok := se.X.(*ast.Ident); ok && id.Obj == nil {
						switch locals[id.Name] {
						case "golang.org/x/sys/unix":
							unixUsed[se.Sel.Name] = true
						case "time":
							timeUsed[se.Sel.Name] = true
						}
					}
				}
				return true
			})
			// raw epoll system calls (poll_opt build): unix.RawSyscall6(unix.SYS_EPOLL_CTL, .., uintptr(unsafe.Pointer(ev)), ..)
			// is only safe when the callee is the assembly stub. The shim is a Go function that parks
			// the goroutine at a scheduling point before the real call, and ev lives on the caller's
			// stack, which the runtime may move meanwhile (observed: epoll registrations carrying
			// garbage user data). Hand the shim a real pointer instead.
			ast.Inspect(f, func(n ast.Node) bool {
				ce, ok := n.(*ast.CallExpr)
				if !ok || len(ce.Args) < 5 {
					return true
				}
				se, ok := ce.Fun.(*ast.SelectorExpr)
				if !ok || (se.Sel.Name != "RawSyscall6" && se.Sel.Name != "Syscall6") {
					return true
				}
				id, ok := se.X.(*ast.Ident)
				if !ok || locals[id.Name] != "golang.org/x/sys/unix" {
					return true
				}
				trap, ok := ce.Args[0].(*ast.SelectorExpr)
				if !ok {
					return true
				}
				inner := func(e ast.Expr) ast.Expr { // uintptr(Y) -> Y
					c, ok := e.(*ast.CallExpr)
					if !ok || len(c.Args) != 1 {
						return nil
					}
					if f, ok := c.Fun.(*ast.Ident); !ok || f.Name != "uintptr" {
						return nil
					}
					return c.Args[0]
				}
				switch trap.Sel.Name {
				case "SYS_EPOLL_CTL":
					if y := inner(ce.Args[4]); y != nil {
						se.Sel = ast.NewIdent("EpollCtlP")
						ce.Args = []ast.Expr{ce.Args[1], ce.Args[2], ce.Args[3], y}
						unixUsed["EpollCtlP"] = true
						changed = true
					}
				case "SYS_EPOLL_WAIT":
					if y := inner(ce.Args[2]); y != nil {
						se.Sel = ast.NewIdent("EpollWaitP")
						ce.Args = []ast.Expr{ce.Args[1], y, ce.Args[3], ce.Args[4]}
						unixUsed["EpollWaitP"] = true
						changed = true
					}
				}
				return true
			})
			rw := &rewriter{fset: fset, file: src}
			if pkg == "." || u.RewriteAllChans {
				for _, d := range f.Decls {
					if fd, ok := d.(*ast.FuncDecl); ok && fd.Body != nil {
						rw.rewriteStmts(fd.Body.List)
					}
				}
			}
			allErrs = append(allErrs, rw.errs...)
			if rw.needSched {
				changed = true
				spec := &ast.ImportSpec{Name: ast.NewIdent("mcsched"), Path: &ast.BasicLit{Kind: token.STRING, Value: strconv.Quote(verifmcPath + "sched")}}
				added := false
				for _, d := range f.Decls {
					if gd, ok := d.(*ast.GenDecl); ok && gd.Tok == token.IMPORT {
						gd.Specs = append(gd.Specs, spec)
						if !gd.Lparen.IsValid() {
							gd.Lparen = gd.Pos()
							gd.Rparen = gd.End()
						}
						added = true
						break
					}
				}
				if !added {
					f.Decls = append([]ast.Decl{&ast.GenDecl{Tok: token.IMPORT, Specs: []ast.Spec{spec}}}, f.Decls...)
				}
				f.Imports = append(f.Imports, spec)
			}
			if !changed {
				continue
			}
			var buf bytes.Buffer
			if err := (&printer.Config{Mode: printer.UseSpaces | printer.TabIndent, Tabwidth: 8}).Fprint(&buf, fset, f); err != nil {
				return fmt.Errorf("print %s: %v", src, err)
			}
			out := filepath.Join(dir, "instr", pkg, name)
			if err := os.MkdirAll(filepath.Dir(out), 0o755); err != nil {
				return err
			}
			if err := os.WriteFile(out, buf.Bytes(), 0o644); err != nil {
				return err
			}
			repl[src] = out
		}
	}
	if len(allErrs) > 0 {
		return fmt.Errorf("rewriter cannot preserve these constructs:\n  %s", strings.Join(allErrs, "\n  "))
	}
	// generated alias files for the unix and time shims
	gen, err := genAliases("mcsys", "golang.org/x/sys/unix", "unix", unixUsed, mcsysIntercepted)
	if err != nil {
		return err
	}
	gp := filepath.Join(dir, "instr", "mcsys_aliases_gen.go")
	if err := os.WriteFile(gp, gen, 0o644); err != nil {
		return err
	}
	repl[filepath.Join(repoDir, "internal", "verifmc", "mcsys", "aliases_gen.go")] = gp
	gen, err = genAliases("mctime", "time", "time", timeUsed, mctimeIntercepted)
	if err != nil {
		return err
	}
	gp = filepath.Join(dir, "instr", "mctime_aliases_gen.go")
	if err := os.WriteFile(gp, gen, 0o644); err != nil {
		return err
	}
	repl[filepath.Join(repoDir, "internal", "verifmc", "mctime", "aliases_gen.go")] = gp
	return nil
}

// names defined by hand in the shims (everything else used by gnet is aliased to the real package)
var mcsysIntercepted = map[string]bool{
	"Read": true, "Write": true, "Writev": true, "Readv": true, "Recvfrom": true, "Sendto": true, "Send": true,
	"Accept4": true, "Accept": true, "Close": true, "Socket": true, "Bind": true, "Listen": true, "Connect": true,
	"EpollCreate1": true, "EpollCtl": true, "EpollWait": true, "Eventfd": true, "FcntlInt": true, "Dup": true,
	"Syscall6": true, "RawSyscall6": true, "EpollCtlP": true, "EpollWaitP": true,
}

var mctimeIntercepted = map[string]bool{
	"Timer": true, "Ticker": true, "NewTimer": true, "NewTicker": true, "After": true, "AfterFunc": true, "Sleep": true, "Tick": true,
}

var (
	pkgIndexMu    sync.Mutex
	pkgIndexCache = map[string]map[string]string{}
)

// pkgIndex maps the exported top-level names of a package (for linux/amd64) to their kind.
func pkgIndex(importPath string) (map[string]string, error) {
	pkgIndexMu.Lock()
	defer pkgIndexMu.Unlock()
	if m, ok := pkgIndexCache[importPath]; ok {
		return m, nil
	}
	cmd := exec.Command("go", "list", "-f", "{{.Dir}}", importPath)
	cmd.Dir = repoDir
	cmd.Env = goEnv()
	out, err := cmd.Output()
	if err != nil {
		return nil, fmt.Errorf("go list %s: %v", importPath, err)
	}
	pdir := strings.TrimSpace(string(out))
	ctx := matchContext("", false)
	ents, err := os.ReadDir(pdir)
	if err != nil {
		return nil, err
	}
	idx := map[string]string{}
	fset := token.NewFileSet()
	for _, e := range ents {
		n := e.Name()
		if !strings.HasSuffix(n, ".go") || strings.HasSuffix(n, "_test.go") {
			continue
		}
		if ok, _ := ctx.MatchFile(pdir, n); !ok {
			continue
		}
		f, err := parser.ParseFile(fset, filepath.Join(pdir, n), nil, parser.SkipObjectResolution)
		if err != nil {
			return nil, err
		}
		for _, d := range f.Decls {
			switch x := d.(type) {
			case *ast.FuncDecl:
				if x.Recv == nil {
					idx[x.Name.Name] = "func"
				}
			case *ast.GenDecl:
				for _, sp := range x.Specs {
					switch s := sp.(type) {
					case *ast.TypeSpec:
						idx[s.Name.Name] = "type"
					case *ast.ValueSpec:
						k := "var"
						if x.Tok == token.CONST {
							k = "const"
						}
						for _, nm := range s.Names {
							idx[nm.Name] = k
						}
					}
				}
			}
		}
	}
	pkgIndexCache[importPath] = idx
	return idx, nil
}

func genAliases(pkgName, importPath, local string, used map[string]bool, intercepted map[string]bool) ([]byte, error) {
	idx, err := pkgIndex(importPath)
	if err != nil {
		return nil, err
	}
	var names []string
	for n := range used {
		names = append(names, n)
	}
	sort.Strings(names)
	var b bytes.Buffer
	fmt.Fprintf(&b, "// Code generated by /verif/cmd/check (rewriter); DO NOT EDIT.\n\npackage %s\n\nimport real %q\n\n", pkgName, importPath)
	for _, n := range names {
		if intercepted[n] {
			continue
		}
		switch idx[n] {
		case "const":
			fmt.Fprintf(&b, "const %s = real.%s\n", n, n)
		case "type":
			fmt.Fprintf(&b, "type %s = real.%s\n", n, n)
		case "var", "func":
			fmt.Fprintf(&b, "var %s = real.%s\n", n, n)
		default:
			return nil, fmt.Errorf("rewriter: %s.%s is used by gnet but not found in the real package", local, n)
		}
	}
	fmt.Fprintf(&b, "\nvar _ = real.%s\n", anyName(idx))
	return b.Bytes(), nil
}

func anyName(idx map[string]string) string {
	var ns []string
	for n, k := range idx {
		if (k == "func" || k == "var") && ast.IsExported(n) {
			ns = append(ns, n)
		}
	}
	sort.Strings(ns)
	if len(ns) == 0 {
		return "X"
	}
	return ns[0]
}
