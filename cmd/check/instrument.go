package main

import "fmt"

func instrument(dir string, u Unit, repl map[string]string) error {
	return fmt.Errorf("instrumenter not built yet")
}
