#!/usr/bin/env python3
"""Prints the markdown table of confirmed seeded changes (/verif/seeded/*/meta.json) for DESIGN.md §9.7."""
import glob, json, os
rows = []
for d in sorted(glob.glob('/verif/seeded/*')):
    try:
        m = json.load(open(os.path.join(d, 'meta.json')))
    except Exception:
        continue
    name = os.path.basename(d)
    conf = m.get('confirmed_by_seedcheck', {})
    dw = conf.get('demo_without_patch') or {}
    dp = conf.get('demo_with_patch') or {}
    # a tag configuration counts only if the demo builds and passes on the clean tree
    good = [k for k, v in dw.items() if v['rc'] == 0]
    demo_ok = (len(good) > 0 and any(dp.get(k, {}).get('rc', 0) != 0 for k in good)) if dw and dp else None
    if m.get('demo_confirmed_manually'):
        demo_ok = True
    suite = None
    if conf.get('root_suite'):
        # older entries recorded the exit status of the pipeline (tail's), not the suite's: judge by the output
        tail = conf['root_suite'].get('tail', '')
        lines = [l for l in tail.strip().split('\n') if l.strip() and not l.startswith('SUITE_RC')]
        suite = 0 if (lines and lines[-1].strip() in ('PASS', 'ok') or 'SUITE_RC=0' in tail) else 1
    if m.get('root_suite_rerun'):
        suite = m['root_suite_rerun'].get('rc')
    pkg = conf.get('pkg_tests', {}).get('rc') if conf.get('pkg_tests') else None
    det = []
    for c, v in (m.get('checks_run') or {}).items():
        sig = ''
        for l in v.get('lines', []):
            if 'sig=' in l:
                sig = l.split('sig=')[1].strip()
                break
        det.append('%s:%s%s' % (c, {0: 'quiet', 1: 'VIOLATION', 2: 'error'}.get(v['rc'], v['rc']), (' (' + sig + ')') if sig and v['rc'] == 1 else ''))
    rows.append((name, m.get('summary', '')[:int(os.environ.get('SUMLEN', '150'))].replace('|', '/'), 'yes' if demo_ok else ('?' if demo_ok is None else 'NO'),
                 'pass' if (pkg in (0, None) and suite in (0, None)) else 'FAIL(pkg=%s root=%s)' % (pkg, suite), '; '.join(det), 'caught' if m.get('detected') else 'MISSED'))
print('| seed | change (sub-agent summary) | demo fails with / passes without | gnet suite with change | checks run | verdict |')
print('|---|---|---|---|---|---|')
for r in rows:
    print('| %s | %s | %s | %s | %s | %s |' % r)
print()
print('caught %d of %d' % (sum(1 for r in rows if r[5] == 'caught'), len(rows)))
