#!/usr/bin/env python3
"""Confirm a seeded defect produced by a sub-agent and run the /verif checks against it.

usage: seedcheck.py <property-id> <seed-dir> [--checks C04,C07] [--skip-suite] [--tier quick]

Phase A (scratch worktree of /repo under /tmp, removed afterwards):
  - the patch applies and the tree builds,
  - gnet's existing tests still pass with the patch (packages touched; the root package suite runs
    in a private network namespace because its tests bind fixed ports),
  - the demonstration fails with the patch and passes without it.
Phase B (on /repo itself, serialised by a lock, always reverted):
  - git apply the patch, run the registered check(s), record exit code and VIOLATION lines,
    git checkout -- .
Result: JSON on stdout; with --keep the seed is copied to /verif/seeded/<name>/.
"""
import fcntl, json, os, re, shutil, subprocess, sys, time

ENV = dict(os.environ, GOFLAGS="-mod=mod", GOPROXY="off", GOSUMDB="off", GOTOOLCHAIN="local")
PKGDIR = {"gnet": ".", "ring": "pkg/buffer/ring", "linkedlist": "pkg/buffer/linkedlist", "elastic": "pkg/buffer/elastic",
          "byteslice": "pkg/pool/byteslice", "ringbuffer": "pkg/pool/ringbuffer", "queue": "pkg/queue", "netpoll": "pkg/netpoll",
          "socket": "pkg/socket", "math": "pkg/math", "gfd": "internal/gfd", "io": "pkg/io"}


def sh(cmd, cwd=None, timeout=1800):
    try:
        p = subprocess.run(cmd, shell=True, cwd=cwd, env=ENV, stdout=subprocess.PIPE, stderr=subprocess.STDOUT, timeout=timeout)
        return p.returncode, p.stdout.decode(errors="replace")
    except subprocess.TimeoutExpired as e:
        return 124, (e.stdout or b"").decode(errors="replace") + "\nTIMEOUT"


def main():
    args = sys.argv[1:]
    prop, seed = args[0], os.path.abspath(args[1])
    checks = [prop]
    skip_suite = "--skip-suite" in args
    keep = "--keep" in args
    tier = "quick"
    for i, a in enumerate(args):
        if a == "--checks":
            checks = args[i + 1].split(",")
        if a == "--tier":
            tier = args[i + 1]
    patch = os.path.join(seed, "patch.diff")
    res = {"property": prop, "seed": seed, "checks": {}}
    res["base_commit"] = sh("git -C /repo rev-parse --short HEAD")[1].strip()
    touched = re.findall(r"^\+\+\+ b/(\S+)", open(patch).read(), re.M)
    res["files"] = touched
    demo = None
    for f in sorted(os.listdir(seed)):
        if f.endswith("_test.go"):
            demo = os.path.join(seed, f)
    tag = os.path.basename(os.path.dirname(seed)) + "-" + os.path.basename(seed)
    wt = "/tmp/sc-" + tag
    # ---------------- phase A
    sh("git -C /repo worktree remove --force %s" % wt)
    rc, out = sh("git -C /repo worktree add -q --detach %s HEAD" % wt)
    if rc != 0:
        res["error"] = out
        print(json.dumps(res, indent=1))
        return 2
    try:
        def demo_run(label):
            if not demo:
                return None
            src = open(demo).read()
            pkg = re.search(r"^package (\w+)", src, re.M).group(1)
            d = PKGDIR.get(pkg.replace("_test", ""), ".")
            m = re.search(r"cop(?:y|ied)\s+(?:it\s+)?(?:in)?to\s+[`'\"]?([\w./-]+)", src.split("package")[0], re.I)
            if m and os.path.isdir(os.path.join(wt, m.group(1).rstrip("/."))):
                d = m.group(1).rstrip("/")
                if d in ("the", "repo", "root"):
                    d = "."
            tests = "|".join(re.findall(r"^func (Test\w+)\(", src, re.M))
            shutil.copy(demo, os.path.join(wt, d, "zz_seed_demo_test.go"))
            outs = {}
            for tags in ["", "gc_opt", "poll_opt"]:
                if tags and tags not in src and tags not in open(os.path.join(seed, "meta.json")).read():
                    continue
                cmd = "go test -vet=off -count=1 -timeout 300s %s -run '^(%s)$' ./%s" % ("-tags " + tags if tags else "", tests, d)
                rc, out = sh(cmd, cwd=wt, timeout=400)
                outs[tags or "default"] = {"rc": rc, "tail": out[-600:]}
            os.remove(os.path.join(wt, d, "zz_seed_demo_test.go"))
            return outs
        res["demo_without_patch"] = demo_run("clean")
        rc, out = sh("git apply %s" % patch, cwd=wt)
        res["applies"] = rc == 0
        if rc != 0:
            res["error"] = out
            print(json.dumps(res, indent=1))
            return 2
        rc, out = sh("go build ./... && go test -vet=off -count=1 -run '^$' ./... 2>&1 | tail -5", cwd=wt)
        res["builds"] = rc == 0
        res["demo_with_patch"] = demo_run("patched")
        if not skip_suite:
            rc, out = sh("go test -vet=off -count=1 ./pkg/... ./internal/... 2>&1 | grep -v 'no test files' | tail -15", cwd=wt)
            res["pkg_tests"] = {"rc": rc, "tail": out[-800:]}
            root_touched = any("/" not in f for f in touched) or any(f.startswith("pkg/") or f.startswith("internal") for f in touched)
            if root_touched:
                tags = "-tags gc_opt" if any("conn_matrix" in f for f in touched) else ("-tags poll_opt" if any("ultimate" in f for f in touched) else "")
                # the multicast / bind-to-device tests need real interfaces: run them outside the namespace, the rest inside
                cmd = ("go test -c -vet=off %s -o /tmp/%s.test . && mkdir -p /tmp/%s.run && cd /tmp/%s.run && "
                       "unshare -n sh -c 'ip link set lo up; /tmp/%s.test -test.count=1 -test.timeout=25m -test.skip \"TestServeMulticast|TestBindToDevice|TestMulticastBind\"; echo SUITE_RC=$?' 2>&1 | tail -25") % (tags, tag, tag, tag, tag)
                rc, out = sh(cmd, cwd=wt, timeout=2400)
                # the exit status of the pipeline is tail's: the suite's own status is echoed into the output
                m = re.search(r"SUITE_RC=(\d+)", out)
                rc = int(m.group(1)) if m else 3
                res["root_suite"] = {"rc": rc, "tags": tags, "tail": out[-1500:]}
                sh("rm -rf /tmp/%s.test /tmp/%s.run" % (tag, tag))
    finally:
        sh("git -C /repo worktree remove --force %s" % wt)
    # ---------------- phase B: the checks run against a scratch worktree carrying the patch
    # (VERIF_REPO), so that /repo itself stays untouched while other work is going on; evidence and
    # replay files of these runs go to a scratch directory (VERIF_OUT).
    sb = "/tmp/sb-" + tag
    sh("git -C /repo worktree remove --force %s" % sb)
    rc, out = sh("git -C /repo worktree add -q --detach %s HEAD" % sb)
    try:
        rc, out = sh("git apply %s" % patch, cwd=sb)
        for c in checks:
            t0 = time.time()
            # SEED_VERIF: a snapshot copy of /verif (harness, mc, bin) so that /verif can be edited while a queue runs
            vd = os.environ.get("SEED_VERIF", "/verif")
            rc, out = sh("VERIF_DIR=%s VERIF_REPO=%s VERIF_OUT=/tmp/sbout-%s %s/bin/check %s --tier %s" % (vd, sb, tag, vd, c, tier), cwd=vd, timeout=3000)
            viol = [l for l in out.splitlines() if l.startswith("VIOLATION") or l.startswith("  unit=") or l.startswith("ERROR") or l.startswith("check ")]
            res["checks"][c] = {"rc": rc, "tier": tier, "wall_s": round(time.time() - t0, 1), "lines": viol[:12]}
    finally:
        sh("git -C /repo worktree remove --force %s" % sb)
        sh("rm -rf /tmp/sbout-%s" % tag)
    res["detected"] = any(v["rc"] == 1 for v in res["checks"].values())
    print(json.dumps(res, indent=1))
    if keep:
        dst = "/verif/seeded/%s" % re.sub(r"^seed([23456])-(C\d+)-(\w+)$", r"\2-r\1-\3", tag).replace("seed-", "")
        os.makedirs(dst, exist_ok=True)
        shutil.copy(patch, dst)
        if demo:
            shutil.copy(demo, dst)
        meta = {}
        try:
            meta = json.load(open(os.path.join(seed, "meta.json")))
        except Exception:
            pass
        old = {}
        try:
            old = json.load(open(os.path.join(dst, "meta.json")))
        except Exception:
            pass
        conf = dict(old.get("confirmed_by_seedcheck") or {})
        for k in ("base_commit", "applies", "builds", "demo_without_patch", "demo_with_patch", "pkg_tests", "root_suite"):
            if res.get(k) is not None:
                conf[k] = res.get(k)
        meta["confirmed_by_seedcheck"] = conf
        checks = dict(old.get("checks_run") or {})
        checks.update(res["checks"])  # the latest run of each check wins
        meta["checks_run"] = checks
        meta["detected"] = any(v["rc"] == 1 for v in checks.values())
        json.dump(meta, open(os.path.join(dst, "meta.json"), "w"), indent=1)
    return 0


sys.exit(main())
