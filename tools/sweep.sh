#!/bin/sh
# Runs every registered quick (or $1=thorough) command once, prints exit code and wall time per
# property and validates the evidence files against the schema. Usage: tools/sweep.sh [quick|thorough]
tier=${1:-quick}
cd /verif || exit 2
export GOFLAGS=-mod=mod GOPROXY=off GOSUMDB=off GOTOOLCHAIN=local
go build -o bin/check ./cmd/check || exit 2
fail=0
for c in C20 C16 C17 C15 C14 C12 C11 C10 C09 C13 C03 C08 C19 C18 C05 C06 C02 C01 C04 C07; do
  t0=$(date +%s)
  ./bin/check $c --tier $tier > /tmp/sweep-$c.log 2>&1
  rc=$?
  t1=$(date +%s)
  echo "$c rc=$rc wall=$((t1-t0))s $(grep -c '^KNOWN-FINDING' /tmp/sweep-$c.log) known, $(grep -c '^WARN' /tmp/sweep-$c.log) warn: $(grep '^check ' /tmp/sweep-$c.log | cut -c1-160)"
  [ $rc -ne 0 ] && fail=1
done
python3-vt - <<'PY'
import json, jsonschema, glob
sch = json.load(open('/root/.vp/EVIDENCE.schema.json'))
bad = 0
for f in sorted(glob.glob('/verif/evidence/C*.json')):
    try:
        jsonschema.validate(json.load(open(f)), sch)
    except Exception as e:
        bad += 1
        print('EVIDENCE INVALID', f, str(e)[:200])
print('evidence files valid' if not bad else '%d invalid evidence files' % bad)
PY
exit $fail
