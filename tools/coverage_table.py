#!/usr/bin/env python3
"""Prints the table of DESIGN.md §9.3 from evidence/*.json (+ wall times from /tmp/sweep-*.log if present)."""
import json, glob, os, re
print('| id | what the quick tier enumerates (from the evidence file) | scenarios | evaluations | states / transitions | exhaustive within bounds | wall |')
print('|---|---|---|---|---|---|---|')
for f in sorted(glob.glob('/verif/evidence/C*.json')):
    d = json.load(open(f)); c = d['coverage']; pid = os.path.basename(f)[:-5]
    wall = ''
    try:
        m = re.search(r'wall=([\d.]+)s', open('/tmp/sweep-%s.log' % pid).read())
        wall = '%.0f s' % float(m.group(1))
    except Exception:
        pass
    b = '; '.join(c.get('bounds_completed') or [])[:230].replace('|', '/')
    st = sum(s.get('states', 0) for s in c.get('scenarios', []))
    tr = sum(s.get('transitions', 0) for s in c.get('scenarios', []))
    print('| %s | %s | %s | %.3g | %.3g / %.3g | %s%s | %s |' % (pid, b, c.get('scenario_count', ''), c.get('evaluations', 0), st, tr, 'yes' if c.get('exhaustive') else 'no', '' if c.get('exhaustive') else ' (caps: %d)' % len(c.get('caps_hit') or []), wall))
