#!/usr/bin/env python3
"""Regenerates /verif/MANIFEST.json from the table below (one entry per property)."""
import json, sys

MC = "model_checking"
P = {}
def prop(id, claimed, engine, cat, technique, text, note, ref, reason=""):
    P[id] = dict(claimed=claimed, engine=engine, cat=cat, technique=technique, text=text, note=note, ref=ref, reason=reason)

TRUST = "Trusted: in-package harness and reference model, explorer packages under /verif/mc, Go toolchain, this kernel. "

prop("C09", True, "seqmc", MC, "explicit-state model checking (BFS with state dedup) of the implementation against a reference FIFO",
     "All reachable (size,r,w,isEmpty) states of rings up to a capacity bound are enumerated and closed under every operation of the alphabet, plus depth-bounded search from seed states around the 1 KiB/4 KiB/5 KiB/8 KiB growth thresholds; every transition runs on the real ring.Buffer and is compared with a FIFO reference.",
     TRUST + "Bounded: capacity bound for the closure, depth for large rings, scripted reader/writer answers (n in {0,1,len-1,len} x {nil,EOF,error}).", "DESIGN.md §3, §5/C09")
prop("C10", True, "seqmc", MC, "explicit-state model checking (BFS with state dedup) of the implementation against a reference FIFO",
     "All operation sequences up to a depth on the real elastic.Buffer (static limits 1,4,1024,1025,...) and elastic.RingBuffer, and on a pair of them sharing the ring pool, with every Peek(n) for n in 1..Buffered on small contents; every transition compared with a flat FIFO reference.",
     TRUST + "Bounded: depth, list length and ring capacity bounds; single-threaded pool behaviour.", "DESIGN.md §3, §5/C10")
prop("C11", True, "seqmc", MC, "explicit-state model checking (BFS with state dedup) of the implementation against a reference segment queue",
     "All operation sequences up to a depth on the real linkedlist.Buffer with segment sizes incl. 0 and non-powers of two, read sizes ending inside segments, scripted readers/writers; compared with a [][]byte reference incl. copy semantics, Buffered, Len, IsEmpty.",
     TRUST + "Bounded: depth and number of segments.", "DESIGN.md §3, §5/C11")
prop("C20", True, "seqmc", "exploration", "bounded-exhaustive enumeration of the input domain against an interval-derived reference",
     "Every int32 (thorough) / every int in [-70000, 2^24] (quick) plus dense windows around every power of two up to 2^62 for the four math functions, every size 1..MaxInt32 for the size-class function, and the full field ranges of the connection identifier.",
     TRUST + "64-bit arguments away from powers of two are covered by windows only.", "DESIGN.md §3, §5/C20")

REASON_WIP = "check under construction in this build phase (machinery not committed yet)"
for i in range(1, 21):
    id = "C%02d" % i
    if id not in P:
        prop(id, False, "", "", "", "", "", "", REASON_WIP)

def main():
    checks, na = [], []
    for id in sorted(P):
        p = P[id]
        if not p["claimed"]:
            na.append({"property_id": id, "reason": p["reason"]})
            continue
        checks.append({
            "property_id": id,
            "quick_cmd": "./bin/check %s --tier quick" % id,
            "thorough_cmd": "./bin/check %s --tier thorough" % id,
            "evidence_file": "evidence/%s.json" % id,
            "replay_cmd_template": "./bin/check %s --replay {path}" % id,
            "engine": p["engine"],
            "level_claimed": {"category": p["cat"], "text": p["text"], "design_ref": p["ref"]},
            "level_note": p["note"],
            "technique": p["technique"],
        })
    engines = {}
    for id in sorted(P):
        if P[id]["claimed"]:
            engines.setdefault(P[id]["engine"], []).append(id)
    kinds = {
        "seqmc": ("mc/seqmc", "E2/E3: explicit-state BFS over operation sequences on the real object (successor = fresh instance + replay + 1 op) with a lock-step reference model; bounded-exhaustive input enumeration as the depth-1 case"),
        "sched": ("mc/sched", "E1: cooperative scheduler + preemption/deviation-bounded stateless DFS (CHESS style) over the real code; atomics, queue operations and system calls are scheduling points"),
    }
    m = {
        "version": 1,
        "setup_cmd": "cd /verif && GOFLAGS=-mod=mod GOPROXY=off GOSUMDB=off GOTOOLCHAIN=local go build -o bin/check ./cmd/check && ./bin/check --warm",
        "hooks": {
            "guard": "verifmc-overlay (no source hooks are committed to gnet; instrumentation is generated at check time from the working tree and applied with go test -overlay)",
            "enable": "bin/check regenerates an overlay (in-package harness test files, explorer packages as internal/verifmc/..., rewritten engine files) from /repo's working tree and builds with `go test -c -overlay`",
            "baseline_off_cmd": "cd /repo && GOFLAGS=-mod=mod go test -vet=off -count=1 -timeout 25m ./...",
            "source_commits": [], "add_only": True},
        "engines": [{"name": k, "path": kinds[k][0], "serves_properties": v, "kind_free_text": kinds[k][1]} for k, v in engines.items()],
        "checks": checks,
        "not_applicable": na,
        "notes": "All checks run the real gnet code from /repo's working tree. Exit 0 held / 1 VIOLATION / 2 infrastructure error. known_findings.json lists recorded findings and fixed defects.",
    }
    json.dump(m, open("/verif/MANIFEST.json", "w"), indent=1)
    print("claimed:", [c["property_id"] for c in checks])

main()
