#!/usr/bin/env python3
"""Regenerates /verif/MANIFEST.json from the table below (one entry per property)."""
import json, sys

MC = "model_checking"
P = {}
def prop(id, claimed, engine, cat, technique, text, note, ref, reason=""):
    P[id] = dict(claimed=claimed, engine=engine, cat=cat, technique=technique, text=text, note=note, ref=ref, reason=reason)

TRUST = "Trusted: in-package harness and reference model, explorer packages under /verif/mc, Go toolchain, this kernel. "

prop("C09", True, "seqmc", MC, "explicit-state model checking (BFS with state dedup) of the implementation against a reference FIFO",
     "All reachable (size,r,w,isEmpty) states of rings up to a capacity bound are enumerated and closed under every operation of the alphabet, plus depth-bounded search from seed states around the 1 KiB/4 KiB/5 KiB/8 KiB growth thresholds; every transition runs on the real ring.Buffer and is compared with a FIFO reference; the state key carries every scalar field of the real object (seqmc.Scalars), Bytes() is checked for not aliasing the ring's storage, and ReadFrom must offer a conforming reader room.",
     TRUST + "Bounded: capacity bound for the closure, depth for large rings, scripted reader/writer answers (n in {0,1,len-1,len} x {nil,EOF,error}).", "DESIGN.md §3, §5/C09")
prop("C10", True, "seqmc", MC, "explicit-state model checking (BFS with state dedup) of the implementation against a reference FIFO",
     "All operation sequences up to a depth on the real elastic.Buffer (static limits 1,4,1024,1025,...) and elastic.RingBuffer, and on a pair of them sharing the ring pool, with every Peek(n) for n in 1..Buffered on small contents; every transition compared with a flat FIFO reference.",
     TRUST + "Bounded: depth, list length and ring capacity bounds; single-threaded pool behaviour.", "DESIGN.md §3, §5/C10")
prop("C11", True, "seqmc", MC, "explicit-state model checking (BFS with state dedup) of the implementation against a reference segment queue",
     "All operation sequences up to a depth on the real linkedlist.Buffer with segment sizes incl. 0 and non-powers of two, read sizes ending inside segments, scripted readers/writers; compared with a [][]byte reference incl. copy semantics, Buffered, Len, IsEmpty; PeekWithBytes with up to two extra segments and limits inside each of them; ReadFrom must offer a conforming reader room; the state key carries every scalar field of the real object.",
     TRUST + "Bounded: depth and number of segments.", "DESIGN.md §3, §5/C11")
prop("C20", True, "seqmc", "exploration", "bounded-exhaustive enumeration of the input domain against an interval-derived reference",
     "Every int32 (thorough) / every int in [-70000, 2^24] (quick) plus dense windows around every power of two up to 2^62 for the four math functions, every size 1..MaxInt32 for the byte-slice pool's size-class function (and, beyond the statement, every size up to 2^26 for the ring-buffer pool's), and the full field ranges of the connection identifier.",
     TRUST + "64-bit arguments away from powers of two are covered by windows only.", "DESIGN.md §3, §5/C20")

prop("C12", True, "seqmc", MC, "explicit-state model checking (BFS with state dedup) of the real pools with an address ledger as oracle",
     "All Get/Put/PutForeign/GC sequences up to a depth on a fresh byteslice.Pool (sizes around class boundaries, re-sliced and foreign slices of odd capacity, garbage collections) with an address ledger that detects overlap with outstanding slices and hand-outs reaching beyond a returned slice's capacity; same for the ring-buffer pool (empty, not shared) incl. a scripted run across the calibration threshold.",
     TRUST + "Single-threaded per process (sync.Pool is per-P); classes >= 2^27 not allocated; data races are decided under C05.", "DESIGN.md §3, §5/C12")
prop("C14", True, "seqmc", MC, "explicit-state model checking (BFS to closure) of both registry implementations against a reference map",
     "Closure of all reachable registry layouts for small descriptor alphabets on the map registry, the gc_opt matrix with the real geometry, and the gc_opt matrix with scaled geometries 4x2 and 4x4 (row-boundary crossings enumerable), plus scripted 65538-connection populations on the real geometry; lookups of every descriptor, count (also at every visit of an iteration), visit-exactly-once, shutdown pattern, early-stopped iteration and the stored indexes of every live connection checked after each transition; the state key carries every scalar field of the real registry (compaction switch, cursor, per-row counts).",
     TRUST + "Scaled geometry changes only the two geometry constants of internal/gfd (asserted by the rewriter).", "DESIGN.md §3, §5/C14")
prop("C15", True, "seqmc", MC, "exhaustive enumeration of policy inputs and explicit-state BFS of the least-connections transition system on the real load balancers",
     "Round-robin for every N in 1..256 from a fresh cursor and from cursor values around 2^16/2^31/2^32, least-connections as BFS over accept/close sequences plus every count vector in {0..3}^N (N<=5), source-addr-hash for every N in 1..256 over an address alphabet, all on the real loadBalancer implementations with real connection counters.",
     TRUST + "Policy part uses fake loops; the live clause (callbacks run on the assigned loop) is decided by the scheduler-based engine unit when present in the evidence.", "DESIGN.md §5/C15")
prop("C16", True, "seqmc", "exploration", "bounded-exhaustive enumeration of strings, grammar derivations and integer options",
     "Every string up to length 5 (6 thorough) over a 20-symbol alphabet behind 5 prefixes (error identity pinned for missing scheme, empty endpoint, and unknown scheme in the scheme://rest and the opaque scheme:rest spelling), every derivation of an address grammar, every capacity/chunk value in [-2,2^17] and around every power of two up to 2^62 through createListeners and NewClient, every (Multicore, NumEventLoop) pair.",
     TRUST + "Strings outside the alphabet/length bound are not covered; error identity is only checked where the statement pins it down.", "DESIGN.md §5/C16")
prop("C17", True, "seqmc", "exploration", "bounded-exhaustive enumeration of address conversions",
     "net.Addr -> sockaddr -> net.Addr for {tcp,udp,ip} x IP alphabet x all 65536 ports x zones, unix names x networks, invalid IP lengths, address family of the result (IPv4 in either spelling without zone -> AF_INET), zone index round trip for every index of a range.",
     TRUST + "Zones compared by interface index on this host; the live clause (RemoteAddr/LocalAddr at every callback under churn) is decided by the scheduler-based engine unit when present in the evidence.", "DESIGN.md §5/C17")

prop("C03", True, "sched", MC, "stateless model checking (preemption-bounded DFS under a cooperative scheduler) of the real poller and task queues on real epoll/eventfd",
     "Every interleaving with <= 2 (quick) / 3 (thorough) preemptions of one polling loop and 1..3 producers calling Trigger on the real netpoll.Poller (default and poll_opt), scheduling points at every atomic, queue operation, eventfd read/write and epoll_wait; at quiescence every accepted task has run exactly once on the loop thread, in issue order for one producer's high-priority tasks, and the loop is still wakeable; incl. pre-queued backlogs around the 1024/256 thresholds (also with the threshold scaled to 6) and a wake-up eventfd whose counter is saturated (real EAGAIN on the wake-up write).",
     TRUST + "SC interleavings; fairness rotation; kqueue pollers cannot run here. The engine-level seam (AsyncWrite/Wake/Close through the public API) is covered by the engine units when listed in the evidence.", "DESIGN.md §2, §5/C03")
prop("C13", True, "sched", MC, "stateless model checking (preemption-bounded DFS) of the real lock-free queue with brute-force linearizability checking of every history",
     "Every interleaving with <= 3 (quick) / 5 (thorough) preemptions, at single atomic load/CAS granularity, of 9-13 configurations of concurrent Enqueue/Dequeue (incl. a one-element queue and a lagging tail); each complete history checked against the sequential FIFO over all linearisation orders; no loss/duplication after a final drain; Length/IsEmpty at quiescence.",
     TRUST + "SC interleavings (Go atomics); <= 4 threads, <= 6 operations.", "DESIGN.md §2, §5/C13")

ENGINE_NOTE = TRUST + "Real kernel sockets (AF_UNIX), this kernel's epoll semantics; delay-bounded schedules (every departure from the default schedule costs one unit), environment deviations limited to answers the kernel could give; bounds per scenario are in the evidence. "
prop("C01", True, "sched", MC, "stateless model checking (delay- and deviation-bounded DFS under a cooperative scheduler) of the real engine on real unix sockets",
     "For each (LT|ET|ET+chunk, segmentation, FIN placement): every schedule within the delay bound x every per-callback consumption choice (13 read operations) and LT short-read deviation within the deviation bound; positional content oracle, consumed+InboundBuffered == bytes read(2), views intact until the next read call, everything offered before OnClose, nothing left unread at quiescence; plus the pending-outbound-then-close scenario and scripted histories that wrap the leftover ring (Peek/Read/Discard over ring head, ring tail and the fresh read buffer) and make Next/Read span a short leftover and the fresh buffer.",
     ENGINE_NOTE + "Server side, 1 loop, reactor mode; tcp/client/poll_opt/gc_opt variants only where listed in the evidence units.", "DESIGN.md §5/C01")
prop("C02", True, "sched", MC, "stateless model checking (delay- and deviation-bounded DFS) of the real engine's write path on real unix sockets",
     "For each (LT|ET, write program over Write/Writev/ReadFrom+Flush/AsyncWrite/AsyncWritev/OnOpen reply): every schedule within the delay bound x every kernel acceptance pattern (short writes, EAGAIN) within the deviation bound, plus real back-pressure; the peer must receive exactly the accepted payloads contiguous and in effect order, OutboundBuffered accounting against the ledger, nothing stays unsent while the peer reads.",
     ENGINE_NOTE, "DESIGN.md §5/C02")
prop("C04", True, "sched", MC, "stateless model checking (delay-bounded DFS) of the real engine over a catalogue of connection histories",
     "About 30 connection histories (peer close, half close, Close action from OnOpen/OnTraffic/OnClose, async Close/CloseWithCallback/Wake/AsyncWrite racing with closes, EventLoop.Close inside a callback, failing Write, late requests after descriptor re-use, a framework-deferred read (ET chunk limit) meeting descriptor re-use in reactor mode and over TCP with SO_REUSEPORT, shutdown with open connections, cross-loop closes; a close while OnOpen is still running, Conn.Dup held across the close, a loop dying of a hard accept error; client side: connected UDP sockets incl. late requests after re-use and a zero-length datagram, two-loop client, failing Enroll) x {LT,ET}: per-connection lifecycle monitor, error classification, CountConnections at quiescence, on every explored execution.",
     ENGINE_NOTE, "DESIGN.md §5/C04")
prop("C06", True, "sched", MC, "stateless model checking (delay-bounded DFS, virtual time) of the real engine's shutdown paths",
     "Shutdown requested from every documented source (Engine.Stop, package Stop, Shutdown action from OnOpen/OnTraffic/OnClose/OnTick/OnBoot, Client.Stop) (also from an OnTraffic that already closed its connection, and from an OnTraffic caused by Wake) from OnOpen of a registered connection and from OnTraffic of a registered connected UDP socket, in idle/accepting/pending-output/busy-sender/async-in-flight/ticker/two-listener situations, incl. the SO_REUSEPORT mode's ticker (UDP listener) and the shutdown that follows a hard accept error, x {LT,ET}: Run returns nil within the step horizon, OnShutdown once, every opened connection closed once before the return, nothing afterwards.",
     ENGINE_NOTE + "Bounded time = bounded scheduler steps under fairness; virtual clock.", "DESIGN.md §5/C06")
prop("C07", True, "sched", MC, "stateless model checking (delay-bounded DFS) of the real engine with a descriptor ledger in the system-call shim as oracle",
     "The C04 histories, the C06 shutdown scenarios (incl. requests through a Conn kept after Run returned) and C18's start-up faults evaluated with the ledger: ownership of every fd number, framework calls on closed/foreign descriptors, double close, leaks at the return of Run, unix-socket file removal.",
     ENGINE_NOTE + "Descriptors created by package net are outside the ledger.", "DESIGN.md §5/C07")

prop("C18", True, "sched", "fault_enumeration", "exhaustive fault enumeration (every call index of every I/O-path system-call site x errno menu) on the real engine under the cooperative scheduler",
     "Two checked echo connections and a liveness probe x {LT,ET} x {small, ring-crossing payloads}: all single faults, all pairs of faults and all single faults combined with one schedule deviation (quick), two schedule deviations (thorough); only the victim may be affected, exactly one OnClose with a non-nil error iff opened, descriptor released, engine keeps serving, retryable errors invisible. Plus: start-up resource exhaustion and address conflicts (socket/bind/listen of TCP and UDP listeners, epoll_create1/eventfd/registration failing; reactor and SO_REUSEPORT/UDP mode), transient accept errors and a failing registration of the accepted socket in SO_REUSEPORT mode (TCP, with a liveness probe), closing a connection whose socket is really full (persistent EAGAIN) while a bystander must be served, and a failing registration in Client.Enroll.",
     ENGINE_NOTE + "Errno menu per site is an assumption listed in the evidence; eventfd/listener registration faults are not injected.", "DESIGN.md §5/C18")
prop("C19", True, "sched", MC, "stateless model checking (delay- and deviation-bounded DFS) of the control API against a reference state machine",
     "Zero Engine handle; sequences of control calls from a 10-call alphabet while running, racing with shutdown (second thread) and after shutdown; Stop(live ctx) nil only when the ledger shows pollers/listeners closed; Stop(cancelled ctx) returns the context error and the shutdown still completes; second Stop harmless; Register delivers exactly one result; Register and Client.Enroll with an injected epoll_ctl(ADD) failure deliver an error, close the duplicate once and leave the engine/client serving; Register of an unsupported Unix-domain socket kind delivers exactly one (error) result; a Runnable handing on the in-shutdown error is not a shutdown request; after a loop died of a hard accept error (EMFILE, injected; reactor mode and TCP/SO_REUSEPORT) the handle reports the in-shutdown state, every connection was closed and no descriptor is left.",
     ENGINE_NOTE, "DESIGN.md §5/C19")

prop("C05", True, "sched", MC, "stateless model checking of the -race build with race-detector-invisible (futex, //go:norace) scheduler hand-offs: the Go race detector is a per-schedule oracle inside an exhaustive schedule enumeration",
     "16 scenarios of user goroutines calling the documented concurrency-safe API (AsyncWrite/AsyncWritev/Wake/Close/CloseWithCallback/SafeContext/SetSafeContext/Fd/Dup/socket options/Execute/Register/CountConnections/Stop) against accept, traffic, close, tick, engine start and stop x {LT,ET}: every schedule within the delay bound is judged by the race detector on gnet's own happens-before relation and by a confinement monitor (one thread per loop, no overlapping callbacks); the same scenarios on the poll_opt and gc_opt builds (-race too), incl. CountConnections racing with the close of the older of two connections and a failing registration travelling back to the Register caller; a non-race unit checks one-thread-per-loop for a two-loop server with cross-loop closes and a two-loop client with concurrent Enroll calls.",
     ENGINE_NOTE + "Races are found between accesses executed in explored schedules; the detector's shadow memory keeps a bounded history; self-test control: MC_C05_CONTROL=1 (non-safe SetContext from another goroutine) must be reported.", "DESIGN.md §2.1, §5/C05")
prop("C08", True, "sched", MC, "stateless model checking (delay- and deviation-bounded DFS) of the real engine with UDP listeners on loopback, plus a bounded-exhaustive datagram size sweep",
     "IPv4 and IPv6 loopback, 1-2 loops, 1-2 senders x 1-3 datagrams of sizes {0,1,2,5,1023,1024,65507}: every handler consumption/reply choice within the deviation bound and every schedule within the delay bound; one datagram of every size 0..65507 (thorough; every 97th quick); exactly one OnTraffic per datagram with exactly its payload and the sender's address, each reply exactly one datagram at the addressed socket (the reply to an empty datagram is an empty datagram).",
     ENGINE_NOTE + "Loopback UDP delivery assumed synchronous (guarded by a bounded settle step).", "DESIGN.md §5/C08")

REASON_WIP = "check under construction in this build phase (machinery not committed yet)"
for i in range(1, 21):
    id = "C%02d" % i
    if id not in P:
        prop(id, False, "", "", "", "", "", "", REASON_WIP)

def main():
    checks, na = [], []
    for id in sorted(P):
        p = P[id]
        if not p["claimed"]:
            na.append({"property_id": id, "reason": p["reason"]})
            continue
        checks.append({
            "property_id": id,
            "quick_cmd": "./bin/check %s --tier quick" % id,
            "thorough_cmd": "./bin/check %s --tier thorough" % id,
            "evidence_file": "evidence/%s.json" % id,
            "replay_cmd_template": "./bin/check %s --replay {path}" % id,
            "engine": p["engine"],
            "level_claimed": {"category": p["cat"], "text": p["text"], "design_ref": p["ref"]},
            "level_note": p["note"],
            "technique": p["technique"],
        })
    engines = {}
    for id in sorted(P):
        if P[id]["claimed"]:
            engines.setdefault(P[id]["engine"], []).append(id)
    kinds = {
        "seqmc": ("mc/seqmc", "E2/E3: explicit-state BFS over operation sequences on the real object (successor = fresh instance + replay + 1 op) with a lock-step reference model; bounded-exhaustive input enumeration as the depth-1 case"),
        "sched": ("mc/sched", "E1: cooperative scheduler + preemption/deviation-bounded stateless DFS (CHESS style) over the real code; atomics, queue operations and system calls are scheduling points"),
    }
    m = {
        "version": 1,
        "setup_cmd": "cd /verif && GOFLAGS=-mod=mod GOPROXY=off GOSUMDB=off GOTOOLCHAIN=local go build -o bin/check ./cmd/check && ./bin/check --warm",
        "hooks": {
            "guard": "verifmc-overlay (no source hooks are committed to gnet; instrumentation is generated at check time from the working tree and applied with go test -overlay)",
            "enable": "bin/check regenerates an overlay (in-package harness test files, explorer packages as internal/verifmc/..., rewritten engine files) from /repo's working tree and builds with `go test -c -overlay`",
            "baseline_off_cmd": "cd /repo && GOFLAGS=-mod=mod go test -vet=off -count=1 -timeout 25m ./...",
            "source_commits": [], "add_only": True},
        "engines": [{"name": k, "path": kinds[k][0], "serves_properties": v, "kind_free_text": kinds[k][1]} for k, v in engines.items()],
        "checks": checks,
        "not_applicable": na,
        "notes": "All checks run the real gnet code from /repo's working tree. Exit 0 held / 1 VIOLATION / 2 infrastructure error. known_findings.json lists recorded findings and fixed defects.",
    }
    json.dump(m, open("/verif/MANIFEST.json", "w"), indent=1)
    print("claimed:", [c["property_id"] for c in checks])

main()
